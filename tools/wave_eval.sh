#!/bin/sh
# tools/wave_eval.sh <prefix> <PROP> ... : confirm + evaluate every delivered patch of a wave, one summary line each
prefix=$1; shift
for prop in "$@"; do
  for w in A B; do
    d=/tmp/agents/${prefix}$prop/out
    [ -f $d/patch$w.diff ] || { echo "$prop $w : no patch"; continue; }
    out=$(PREFIX=$prefix ${VERIF_DIR:-/verif}/tools/confirm.sh $prop $w $prop 2>&1)
    dp=$(echo "$out" | grep 'demo on pristine' | sed 's/.*exit //')
    dm=$(echo "$out" | grep 'demo with patch' | sed 's/.*exit //')
    ts=$(echo "$out" | grep -E 'passed|failed' | head -1 | cut -c1-40)
    nv=$(echo "$out" | grep -c 'VIOLATION')
    sig=$(echo "$out" | grep 'sig:' | head -1 | cut -c1-110)
    ap=$(echo "$out" | grep -c 'DOES NOT APPLY')
    echo "$prop $w : pristine=$dp patched=$dm tests=[$ts] applies=$((1-ap)) DETECTED=$([ $nv -gt 0 ] && echo yes || echo NO) $sig"
  done
done
