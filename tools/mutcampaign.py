#!/venv/bin/python
"""Systematic first-order mutation campaign (meta-evaluation of the checks, not a check itself).

  tools/mutcampaign.py list                         -> number of mutants per file
  tools/mutcampaign.py run <stride> <offset> [file] -> runs every <stride>-th mutant starting at <offset>

Each mutant is one small syntactic change of one file under /repo/mappyfile (comparison / boolean operator flipped, `not` dropped,
integer constant +1, True<->False, a statement replaced by `pass`).  It is written into a scratch worktree (never into /repo), the
quick checks that look at that file are run cheapest first until one reports a violation; if none does, the repository's own test
suite is run.  Result lines go to /verif/mutation/results.jsonl:  killed-by <check> | survived (tests pass/fail) .
"""
from __future__ import annotations

import ast
import json
import os
import subprocess
import sys
import time

REPO = "/repo"
FILES = {
    "mappyfile/parser.py": ["C02", "C08", "C01", "C15", "C05", "C13", "C11", "C14"],
    "mappyfile/transformer.py": ["C02", "C08", "C10", "C01", "C13", "C14", "C05"],
    "mappyfile/pprint.py": ["C03", "C16", "C01", "C06", "C04", "C13", "C14"],
    "mappyfile/quoter.py": ["C03", "C10", "C01", "C04"],
    "mappyfile/validator.py": ["C19", "C07", "C09", "C08", "C03"],
    "mappyfile/dictutils.py": ["C18"],
    "mappyfile/ordereddict.py": ["C17", "C02"],
    "mappyfile/utils.py": ["C20", "C19", "C15", "C18", "C12"],
    "mappyfile/cli.py": ["C20"],
}
CMP = {ast.Eq: "!=", ast.NotEq: "==", ast.Lt: "<=", ast.LtE: "<", ast.Gt: ">=", ast.GtE: ">", ast.In: "not in", ast.NotIn: "in", ast.Is: "is not", ast.IsNot: "is"}
CMP_TXT = {ast.Eq: "==", ast.NotEq: "!=", ast.Lt: "<", ast.LtE: "<=", ast.Gt: ">", ast.GtE: ">=", ast.In: "in", ast.NotIn: "not in", ast.Is: "is", ast.IsNot: "is not"}


def seg(lines, node):
    return (node.lineno, node.col_offset, node.end_lineno, node.end_col_offset)


def between(src_lines, a_end, b_start):
    """text between two positions (line, col) on the same line"""
    (l1, c1), (l2, c2) = a_end, b_start
    if l1 != l2:
        return None
    return src_lines[l1 - 1][c1:c2]


def mutants_of(path):
    src = open(os.path.join(REPO, path), encoding="utf-8").read()
    lines = src.split("\n")
    tree = ast.parse(src)
    out = []       # (lineno, col_start, col_end, new_text, description)  single-line replacements only
    docstrings = set()
    for node in ast.walk(tree):
        if isinstance(node, (ast.FunctionDef, ast.ClassDef, ast.Module, ast.AsyncFunctionDef)):
            b = node.body
            if b and isinstance(b[0], ast.Expr) and isinstance(b[0].value, ast.Constant) and isinstance(b[0].value.value, str):
                docstrings.add(id(b[0]))
    for node in ast.walk(tree):
        if isinstance(node, ast.Compare) and len(node.ops) == 1:
            l, r = node.left, node.comparators[0]
            txt = between(lines, (l.end_lineno, l.end_col_offset), (r.lineno, r.col_offset))
            op = type(node.ops[0])
            if txt is not None and op in CMP and txt.strip() == CMP_TXT[op]:
                i = txt.index(CMP_TXT[op])
                out.append((l.end_lineno, l.end_col_offset + i, l.end_col_offset + i + len(CMP_TXT[op]), CMP[op], "%s -> %s" % (CMP_TXT[op], CMP[op])))
        elif isinstance(node, ast.BoolOp) and len(node.values) >= 2:
            a, b = node.values[0], node.values[1]
            txt = between(lines, (a.end_lineno, a.end_col_offset), (b.lineno, b.col_offset))
            w = "and" if isinstance(node.op, ast.And) else "or"
            if txt is not None and txt.strip() == w:
                i = txt.index(w)
                nw = "or" if w == "and" else "and"
                out.append((a.end_lineno, a.end_col_offset + i, a.end_col_offset + i + len(w), nw, "%s -> %s" % (w, nw)))
        elif isinstance(node, ast.UnaryOp) and isinstance(node.op, ast.Not) and node.lineno == node.operand.lineno:
            out.append((node.lineno, node.col_offset, node.operand.col_offset, "", "not dropped"))
        elif isinstance(node, ast.Constant) and node.lineno == node.end_lineno:
            if node.value is True or node.value is False:
                out.append((node.lineno, node.col_offset, node.end_col_offset, str(not node.value), "%s -> %s" % (node.value, not node.value)))
            elif isinstance(node.value, int) and not isinstance(node.value, bool) and lines[node.lineno - 1][node.col_offset:node.end_col_offset].isdigit():
                out.append((node.lineno, node.col_offset, node.end_col_offset, str(node.value + 1), "%d -> %d" % (node.value, node.value + 1)))
        elif isinstance(node, (ast.Expr, ast.Assign, ast.AugAssign)) and id(node) not in docstrings and node.lineno == node.end_lineno:
            if isinstance(node, ast.Expr) and not isinstance(node.value, ast.Call):
                continue
            if isinstance(node, ast.Expr) and isinstance(node.value.func, ast.Attribute) and node.value.func.attr in ("debug", "info", "warning", "error"):
                continue       # logging
            out.append((node.lineno, node.col_offset, node.end_col_offset, "pass", "statement -> pass: " + lines[node.lineno - 1].strip()[:60]))
    out.sort()
    return src, lines, out


def all_mutants(only=None):
    ms = []
    for path in FILES:
        if only and only not in path:
            continue
        src, lines, out = mutants_of(path)
        for m in out:
            ms.append((path,) + m)
    return ms


def apply(path, lineno, c0, c1, new):
    src = open(os.path.join(REPO, path), encoding="utf-8").read()
    lines = src.split("\n")
    ln = lines[lineno - 1]
    lines[lineno - 1] = ln[:c0] + new + ln[c1:]
    return "\n".join(lines)


def main():
    if sys.argv[1] == "list":
        ms = all_mutants()
        from collections import Counter

        print(Counter(m[0] for m in ms), len(ms))
        return
    stride, offset = int(sys.argv[2]), int(sys.argv[3])
    only = sys.argv[4] if len(sys.argv) > 4 else None
    ms = all_mutants(only)
    wt = "/tmp/mutwt_%d_%d" % (stride, offset)
    subprocess.run(["git", "-C", REPO, "worktree", "add", "--detach", wt, "HEAD", "-q"], check=True)
    outdir = "/tmp/mutout_%d_%d" % (stride, offset)
    os.makedirs(outdir, exist_ok=True)
    os.makedirs("/verif/mutation", exist_ok=True)
    resf = open("/verif/mutation/results_%d_%d.jsonl" % (stride, offset), "a")
    env = dict(os.environ, MCF_REPO=wt, PYTHONPATH=wt, MCF_EVIDENCE_DIR=outdir, MCF_REPLAY_DIR=outdir + "/replays", PYTHONDONTWRITEBYTECODE="1")
    try:
        for idx in range(offset, len(ms), stride):
            path, lineno, c0, c1, new, desc = ms[idx]
            orig = open(os.path.join(wt, path), encoding="utf-8").read()
            mutated = apply(path, lineno, c0, c1, new)
            try:
                compile(mutated, path, "exec")
            except SyntaxError:
                continue
            open(os.path.join(wt, path), "w", encoding="utf-8").write(mutated)
            rec = {"index": idx, "file": path, "line": lineno, "change": desc, "source": orig.split("\n")[lineno - 1].strip()[:100]}
            t0 = time.time()
            killed = None
            for c in FILES[path]:
                try:
                    p = subprocess.run(["./check", c, "--tier", "quick"], cwd="/verif", env=env, capture_output=True, text=True, timeout=1200)
                    if p.returncode == 1 or "VIOLATION" in p.stdout:
                        sig = [x.strip() for x in p.stdout.split("\n") if "sig:" in x][:1]
                        killed = (c, sig[0][:160] if sig else "")
                    elif p.returncode != 0:
                        killed = (c, "harness error: " + (p.stderr.strip().split("\n")[-1][:120] if p.stderr.strip() else ""))
                except subprocess.TimeoutExpired:
                    killed = (c, "timeout")
                if killed:
                    break
            rec["killed_by"] = killed[0] if killed else None
            rec["how"] = killed[1] if killed else None
            if not killed:
                p = subprocess.run(["/venv/bin/python", "-m", "pytest", "-q", "-x", "-p", "no:cacheprovider", "--deselect", "tests/test_map_collection.py::test_maps"],
                                   cwd=wt, env=env, capture_output=True, text=True, timeout=3000)
                rec["tests"] = p.stdout.strip().split("\n")[-1][:80]
            rec["seconds"] = round(time.time() - t0, 1)
            resf.write(json.dumps(rec) + "\n")
            resf.flush()
            open(os.path.join(wt, path), "w", encoding="utf-8").write(orig)
    finally:
        subprocess.run(["git", "-C", REPO, "worktree", "remove", "--force", wt])
        subprocess.run(["rm", "-rf", outdir])


if __name__ == "__main__":
    main()
