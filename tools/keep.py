#!/venv/bin/python
"""keep a confirmed seeded change: keep.py <PROP> <A|B> <name> <caught_by> <needs...>"""
import json
import os
import shutil
import sys

prop, which, name, caught = sys.argv[1:5]
needs = " ".join(sys.argv[5:])
src = "/tmp/agents/%s%s/out" % (os.environ.get("PREFIX", ""), prop)
dst = "/verif/seeded/%s" % name
os.makedirs(dst, exist_ok=True)
shutil.copy(os.path.join(src, "patch%s.diff" % which), os.path.join(dst, "patch.diff"))
shutil.copy(os.path.join(src, "demo%s.py" % which), os.path.join(dst, "demo.py"))
if os.path.exists(os.path.join(src, "notes%s.md" % which)):
    shutil.copy(os.path.join(src, "notes%s.md" % which), os.path.join(dst, "notes.md"))
meta = {
    "property": prop,
    "breaks": prop,
    "needs_to_manifest": needs,
    "written_by": "independent sub-agent given only the property text and its own scratch worktree",
    "confirmed": "tools/confirm.sh %s %s : demo exits 0 on the pristine worktree and non-zero with the patch; the repository's test suite "
                 "(249 tests, tests/test_map_collection.py::test_maps deselected as in the baseline) passes with the patch" % (prop, which),
    "detected_by": caught,
    "how_to_run": "git -C /repo apply /verif/seeded/%s/patch.diff && ./check %s ; git -C /repo checkout -- .   (or tools/mutant.sh seeded/%s/patch.diff %s)" % (name, caught.split()[0], name, caught.split()[0]),
}
json.dump(meta, open(os.path.join(dst, "meta.json"), "w"), indent=1)
print("kept", dst)
