#!/bin/sh
# confirm a seeded change written by a sub-agent:  tools/confirm.sh <PROP> <A|B> [checks...]
#  1. fresh worktree: demo must pass;  2. apply patch: test suite must pass, demo must fail;  3. run my checks against it
prop=$1; which=$2; shift; shift
dir=/tmp/agents/${PREFIX}$prop/out
patch=$dir/patch$which.diff; demo=$dir/demo$which.py
wt=$(mktemp -d /tmp/cf_XXXXXX)
git -C /repo worktree add --detach "$wt" ${REPO_REV:-HEAD} -q || exit 2
(cd "$wt" && PYTHONPATH="$wt" timeout 600 /venv/bin/python "$demo" >/dev/null 2>&1; echo "demo on pristine: exit $?")
if ! git -C "$wt" apply "$patch"; then echo "PATCH DOES NOT APPLY"; git -C /repo worktree remove --force "$wt"; exit 2; fi
(cd "$wt" && PYTHONPATH="$wt" timeout 600 /venv/bin/python "$demo" >/dev/null 2>&1; echo "demo with patch: exit $?")
(cd "$wt" && PYTHONPATH="$wt" timeout 1500 /venv/bin/python -m pytest -q -p no:cacheprovider --deselect tests/test_map_collection.py::test_maps 2>&1 | tail -1)
git -C /repo worktree remove --force "$wt"
[ $# -gt 0 ] && ${VERIF_DIR:-/verif}/tools/mutant.sh "$patch" "$@"
