#!/venv/bin/python
"""(re)writes section 11 of DESIGN.md from seeded/*/meta.json and the hand-made mutant list below"""
import glob
import json
import os

V = os.path.dirname(os.path.dirname(os.path.abspath(__file__)))
HAND = [
    ("CaseInsensitiveOrderedDict.__deepcopy__ copies shallowly", "C17", "deepcopy after reading a missing key (nested value shared)"),
    ("DefaultOrderedDict.__missing__ does not store the created list", "C17", "get[] of a missing object-list key"),
    ("hexcolor() no longer lower-cases", "C02", "any upper-case hex colour"),
    ("int() -> float() in the transformer", "C02", "any integer value"),
    ("first value wins for a keyword given twice", "C02", "S3: the same keyword twice in one object"),
    ("pprint.py / quoter.py reverted to the pinned commit (allOf, /re/i, dict guard, SHADOWSIZE defects)", "C03 C01", "hex colours in allOf slots, /re/i, auto-created dicts"),
    ("parser.py case-fold fix reverted", "C05", "lower-case SYMBOL + bare word + following keyword (S2 with uniform lower+bare rendering)"),
    ("compute_aligned_max_indent uses max(2, indent)", "C16", "align_values with indent 0/1"),
    ("END comment written '#TYPE' instead of '# TYPE'", "C16", "end_comment=True"),
    ("version range test uses <= for minVersion", "C09", "version exactly at a minVersion bound"),
    ("validate lower-cases string values of its argument in place", "C07 C12", "any dictionary with an upper-case string value"),
    ("module-level cache of Parser objects in utils.py", "C12", "two concurrent loads(include_comments=True): one pre-emption"),
    ("comments assigned with < instead of <= (line test)", "C14", "trailing comment on a keyword line"),
    ("maximum include depth 6 instead of 5", "C15", "chain of 6 files"),
    ("nested includes resolved against the including file instead of the root file", "C15", "include chain of depth >= 2"),
]
rows = []
for f in sorted(glob.glob(os.path.join(V, "seeded", "*", "meta.json"))):
    m = json.load(open(f))
    rows.append((os.path.basename(os.path.dirname(f)), m["property"], m["needs_to_manifest"], m["detected_by"]))
out = ["## 11. Detection: which check reports which change", "",
       "### 11.1 Changes written independently by sub-agents (given only the property text and a scratch worktree; kept under `seeded/`)", "",
       "Every one was confirmed in a scratch worktree (`tools/confirm.sh`): the repository's test suite passes with the change, the agent's demo fails with it",
       "and passes without it. `tools/mutant.sh seeded/<id>/patch.diff <CHECK>` re-runs a check against it without touching /repo.", "",
       "| seeded change | property | needs, to manifest | reported by |", "|---|---|---|---|"]
for r in rows:
    out.append("| `%s` | %s | %s | %s |" % r)
out += ["", "### 11.2 Hand-made changes used while building (not kept as files; each passes or is irrelevant to the test suite)", "",
        "| change | reported by | through |", "|---|---|---|"]
for h in HAND:
    out.append("| %s | %s | %s |" % h)
out += ["", "Equivalent mutants met on the way (no observable difference, correctly silent): `setdefault` without key folding (the C-level OrderedDict",
        "dispatches to the folding `__contains__`/`__setitem__`), METADATA keys not lower-cased in the transformer (the case-insensitive dict folds them),",
        "`escape_quotes` without un-escaping (only strings containing the output quote differ - documented exclusion).", ""]
p = os.path.join(V, "DESIGN.md")
s = open(p).read()
i = s.find("## 11. Detection")
if i >= 0:
    s = s[:i]
s = s.rstrip("\n") + "\n\n" + "\n".join(out)
open(p, "w").write(s)
print("rows", len(rows))
