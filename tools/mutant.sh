#!/bin/sh
# Run checks against a scratch worktree of /repo with a patch applied (never touches /repo's working tree,
# /verif/evidence or /verif/replays).   usage: tools/mutant.sh <patch.diff> <CHECK> [<CHECK> ...]
# With TESTS=1 the repository's own test suite is run in the worktree first.
patch=$(readlink -f "$1"); shift
wt=$(mktemp -d /tmp/mw_XXXXXX)
git -C /repo worktree add --detach "$wt" ${REPO_REV:-HEAD} -q || exit 2
if ! git -C "$wt" apply "$patch"; then echo "PATCH DOES NOT APPLY"; git -C /repo worktree remove --force "$wt"; exit 2; fi
out=$(mktemp -d /tmp/mwout_XXXXXX)
if [ -n "$TESTS" ]; then
  (cd "$wt" && PYTHONPATH="$wt" timeout 1500 /venv/bin/python -m pytest -q -p no:cacheprovider -x --deselect tests/test_map_collection.py::test_maps 2>&1 | tail -3)
fi
cd ${VERIF_DIR:-/verif}
for c in "$@"; do
  MCF_REPO="$wt" PYTHONPATH="$wt" MCF_EVIDENCE_DIR="$out" MCF_REPLAY_DIR="$out/replays" ./check "$c" --tier "${TIER:-quick}" 2>&1 | grep -E 'VIOLATION|sig:|HARNESS|tier=' | cut -c1-220 | head -${LINES_MAX:-8}
done
git -C /repo worktree remove --force "$wt"
rm -rf "$out"
