#!/venv/bin/python
"""Maintain known_findings.json by hand (never called by a check).
  kf.py add  <PROP> <what> <sig> [<sig> ...]
  kf.py fixed <PROPS comma-separated> <commit> <what failed>
"""
import json
import os
import sys

P = os.path.join(os.path.dirname(os.path.dirname(os.path.abspath(__file__))), "known_findings.json")
d = json.load(open(P))
d.setdefault("findings", [])
d.setdefault("fixed", [])
cmd = sys.argv[1]
if cmd == "add":
    prop, what = sys.argv[2], sys.argv[3]
    for sig in sys.argv[4:]:
        if not any(e["property"] == prop and e["sig"] == sig for e in d["findings"]):
            d["findings"].append({"property": prop, "status": "open", "sig": sig, "what": what})
elif cmd == "fixed":
    for prop in sys.argv[2].split(","):
        line = "fixed: property=%s %s %s" % (prop, sys.argv[3], sys.argv[4])
        if line not in d["fixed"]:
            d["fixed"].append(line)
json.dump(d, open(P, "w"), indent=1, ensure_ascii=True)
open(P, "a").write("\n")
