#!/venv/bin/python
"""Regenerates /verif/MANIFEST.json from the table below (run after adding a property module)."""
import json
import os

VERIF = os.path.dirname(os.path.dirname(os.path.abspath(__file__)))

CHECKS = {
    # id: (technique, level text, level note, design ref)
    "C17": (
        "explicit-state model checking: BFS closure of the reachable state space of the real dict class + all unmerged operation sequences to depth 3/4, against a reference ordered-dict model",
        "Every operation of a 101-operation alphabet is applied in every reachable canonical state of the real CaseInsensitiveOrderedDict (3 folded keys x value alphabet, with/without default factory; closure, not a depth cut) and result + full state are compared with a reference OrderedDict model; additionally every operation sequence of depth 3 (thorough: 4) is run without state merging. Exhaustive within the stated alphabet.",
        "Trusted: CPython, my reference model (an OrderedDict keyed by lower-cased keys), object-list keys read from the parent schemas. String keys only.",
        "DESIGN.md 2/C17, 1.5",
    ),
}

CHECKS["C01"] = (
    "bounded exhaustive exploration of loads->dumps->loads on the real code over the schema-derived document automaton (S1-S4, root lists) and the whole shipped corpus, both output quotes",
    "Every document of the finite spaces S1 (every slot x alternative x representative), S2 (positions), S3 (all ordered pairs; thorough: all-representative pairs and all triples of keyword lines), S4 (every containment path + sibling variants), root lists and all 451 corpus files is parsed, printed and re-parsed by the real code; the dictionaries must be equal type- and order-strictly except for the two differences the property allows, decided from the raw schema files by my own lookup. A public-API pass binds mappyfile.loads/dumps to the reused worker objects.",
    "Trusted: my schema reader (mcf/vocab.py) for the two allowed differences; documents limited to the stated shapes and representative values; strings containing the output quote excluded as documented.",
    "DESIGN.md 2/C01, 1.1-1.3",
)
CHECKS["C02"] = (
    "bounded exhaustive exploration of the real parser+transformer over the schema-derived document automaton, judged against an independently written text->dict contract",
    "Every document of S1-S4 and root lists, rendered by an independent renderer that knows the intended structure (canonical plus five uniform surface styles on S1/S4), is parsed by the real code and compared type-strictly and order-aware with the dictionary my own statement of the documented contract derives from the intended structure. Public-API binding pass included.",
    "Trusted: mcf/docmodel.expected (my reading of docs/transformer.rst and the property text); tuple vs list for pairs not distinguished; either position accepted for a duplicated key.",
    "DESIGN.md 2/C02, 1.2-1.3",
)

CHECKS["C03"] = (
    "bounded exhaustive exploration of the real printer (inputs: document automaton + corpus; histories: all dict-edit sequences to depth 3/4, unmerged) read back by an independent lexer/structure reader",
    "Every dictionary produced by loads over S1-S4, root lists and the corpus, and every dictionary reached by any sequence of up to 3 (thorough 4) edits from a 34-operation dict-API alphabet on six initial dictionaries, is printed by the real printer; an independent reader (own lexer + block structure reader) must find exactly the dictionary's objects, keywords and values in order, each in the lexical class my table derives from the raw schemas; dictionaries holding a value without Mapfile representation must be refused. dumps/dump/save are bound to the same result.",
    "Trusted: mcf/reader.py, mcf/lexexpect.py. Attribute-looking strings on slots whose schema lists no attribute alternative are accepted bare or quoted; strings containing the output quote are excluded as documented.",
    "DESIGN.md 2/C03, 1.3, 1.5",
)

CHECKS["C04"] = (
    "exhaustive enumeration of (document, formatter option set) pairs on the real code: format, parse, format again, compare bytes; cross-process digest under three hash seeds",
    "For every document of a bounded set (containment paths, rich nested documents, shape-covering S1 documents, root lists, corpus files) and every option set (all 720 on the rich documents, 120 corner sets elsewhere; thorough: 720 everywhere) the real dumps/loads are run twice in a row: the second text must be byte-identical, the dictionaries equal, a fresh printer must give the same text, and two further processes started with other PYTHONHASHSEEDs must produce the identical digest over a fixed sub-space.",
    "Trusted: the document set as representative of printable shapes; documents with quote characters inside strings excluded as documented.",
    "DESIGN.md 2/C04",
)
CHECKS["C06"] = (
    "exhaustive enumeration of the full formatter-option cross product (720 sets) x bounded document set on the real printer+parser",
    "For every admissible combination of indent 0..8, spacer, quote, newlinechar, end_comment, align_values, separate_complex_types (720 sets, enumerated completely) and every document of the bounded set, loads(dumps(d, options)) must equal loads(dumps(d)) type-strictly; for separate_complex_types equality holds modulo the one permitted reorder (simple keys keep their relative order, block keys keep theirs, blocks may only move behind). mappyfile.dumps option plumbing is bound to PrettyPrinter for all 720 sets.",
    "Trusted: my definition of block-valued keys (dict values, lists of dicts, PROJECTION/POINTS/PATTERN). Quick tier runs the 720 sets on rich + shape documents and 120 corner sets on the rest.",
    "DESIGN.md 2/C06",
)
CHECKS["C16"] = (
    "exhaustive enumeration of (document, option set) pairs; every output line judged by an independent line/indent/structure reader",
    "For every document of the bounded set and every option set, the real printer's output is cut into lines by my own reader and each line is checked: only newlinechar breaks lines, indentation equals depth x indent x spacer for openers, keyword lines and END, END sits at its opener's indentation and carries '# TYPE' exactly when end_comment is on, and with align_values all simple-keyword values of one object start in the first multiple of max(1, indent) past the longest keyword.",
    "Trusted: mcf/reader.py. Multi-line strings excepted; per-line rules skipped for newlinechar=' '.",
    "DESIGN.md 2/C16",
)

CHECKS["C07"] = (
    "bounded exhaustive exploration + exhaustive single/double fault enumeration on the real Validator, judged by an independent Draft-4 evaluator over the raw schema files (jsonschema on my own dereferenced schema as cross-check)",
    "Every document of S1/S2/S4 (valid and invalid) is validated against the schema of its root type for all 19 root types; on every schema-valid multi-level document every single fault of twelve kinds at every object and every applicable slot, and every pair of faults (quick: on four documents), is injected at dict level. The set of names in the returned messages must equal the set my evaluator derives; validate must never raise or mutate; verdicts must be invariant under upper-casing values, extra hidden keys, and list-of-roots validation.",
    "Trusted: mcf/schemaeval.py (cases where it disagrees with the jsonschema library are skipped and counted). Comparison by set of message names; exact locations are decided by C08.",
    "DESIGN.md 2/C07, 1.3",
)
CHECKS["C08"] = (
    "bounded exhaustive exploration: documents x layouts (x all single gap deviations) rendered by a position-recording renderer; exhaustive text-level fault enumeration for error locations",
    "Every S1/S4/root-list document under eight layouts (one keyword per line, one line, CRLF, tabs, values spread over lines, # comments, /* */ comments, lower case; thorough: every single gap deviation of eight kinds) is loaded with include_position=True: every block opener and keyword must carry exactly the line/column at which my renderer placed it, value positions must be in source order inside the statement. Every text-level fault of six kinds at every object of every valid multi-level document under four layouts must be reported with the name and line/column of the offending keyword or enclosing opener. Multi-line strings covered by two hand-made documents with an independent line/column count.",
    "Trusted: mcf/docmodel.render's position bookkeeping (columns count characters, lines count LF).",
    "DESIGN.md 2/C08",
)
CHECKS["C09"] = (
    "exhaustive enumeration of all annotated schema entries x boundary versions x parent contexts, plus all call histories to depth 3/4 on one Validator (differential against fresh objects), plus schema export for all root types x boundary versions",
    "Every minVersion/maxVersion-annotated slot and alternative found by scanning the raw schemas is exercised with a valid representative at versions just below, at and just above each bound, a mid version and no version, in every parent context (root and every containment path ending in the owning object) and judged against my independently pruned schema; every sequence of up to 3 (thorough 4) calls from 14 validate/export operations on one Validator (and a second one in the same process) must answer as fresh objects do; the exported schema must equal my pruned schema for all 19 root types x all boundary versions.",
    "Trusted: mcf/schemaeval.prune + evaluator.",
    "DESIGN.md 2/C09",
)

CHECKS["C12"] = (
    "stateless pre-emption-bounded schedule exploration of the real public API under a deterministic sys.monitoring scheduler; exhaustive operation histories on reused worker objects (all sequences from fresh objects + de Bruijn windows); exhaustive argument-purity sweep",
    "Schedules: for each harness of 2 (thorough also 3) public API calls every interleaving with at most 1 pre-emption (call granularity; thorough: line granularity for all 45 unordered pairs, 2 pre-emptions at call granularity) is executed on real threads under a baton-passing scheduler whose scheduling points are the monitoring events of mappyfile's own code objects; each thread's result must equal the sequential result; no deadlock. Histories: every sequence of 14 operations on one reused Parser/MapfileToDict/PrettyPrinter/Validator set from fresh objects to depth 2 (thorough 3), plus every window of 3 (4) consecutive operations inside one long de Bruijn history, must answer exactly as fresh objects do. Purity: every public call on every S1/S4/corpus dictionary under three load-flag sets leaves a type-strict deep snapshot of its argument unchanged.",
    "Trusted: third-party code is atomic with respect to thread switches; at most 3 (thorough 8) scheduling points per thread and code location; 2-3 threads instead of 16. A failing schedule is re-run twice before it is reported.",
    "DESIGN.md 2/C12, 1.8",
)
CHECKS["C18"] = (
    "exhaustive enumeration of update(d1, d2, overwrite) over a bounded dictionary grammar and of find/findall/findunique/findkey over all item lists, queries and key paths up to a size bound, against reference implementations",
    "All 169 x 225 (d1, d2) combinations over two keys and a 13/15-element value grammar (scalars, scalar lists, nested dicts to depth 2, lists of dicts with None placeholders and __delete__ markers), restricted to specified (type-compatible) patches, in both overwrite modes, on plain and Mapfile dictionaries; all item lists of length <= 3 over {no key, road, roads, x} x 6 queries for find/findall/findunique, all existing key paths of length <= 3 for findkey. Result identity, value and the before/after state of every argument are compared with reference implementations written from the property text.",
    "Trusted: the reference implementations in mcf/props/c18.py; unspecified inputs (type-incompatible patches, deleting missing keys, top-level __delete__) are excluded.",
    "DESIGN.md 2/C18",
)

CHECKS["C05"] = (
    "deviation-bounded exhaustive exploration of surface renderings on the real loads (0, 1, thorough 2 deviations + 13 uniform renderings), uniform gap perturbation of the formatted corpus, LALR contexts in upper vs lower case",
    "For every base document (S1, S4, rich documents; S2 with the uniform renderings; thorough adds S2/S3 with single and S1/S4 with double deviations) every rendering that deviates from the canonical one at one site - keyword case (3 policies per keyword token incl. block names and END), separator kind per gap (9 kinds incl. CRLF, form feed, # and /* */ comments, glued comment), quote character per quote-free string, bare vs quoted for identifier-like strings - is loaded by the real code and must give exactly the canonical dictionary; all 451 formatted corpus files are re-tokenised by my lexer and re-joined with 8 uniform separators; every LALR context (top-2) completed to a sentence is compared in upper vs lower/alternating case of structural keywords.",
    "Trusted: mcf/docmodel.render and mcf/reader.lex. Value words and expression word operators are not case-varied.",
    "DESIGN.md 2/C05, 1.4, 1.7",
)
CHECKS["C11"] = (
    "bounded exhaustive exploration of the real loads over LALR parser contexts x terminals (contexts extracted from the table the running implementation built), exhaustive single token-level mutations, token soups, unterminated openers, root types, pumped families with bounded growth measurement",
    "Every context of the real LALR table (top-2, thorough top-3 of the state stack, reached by BFS with Lark's InteractiveParser) x every terminal x lexeme variants, each accepted one extended by two completions; every single-token delete/duplicate/swap/truncate/replace/insert (45 lexemes) and every unterminated opener (10 kinds, spaced and glued) at every token position of ~190 seeds; every token soup of length <= 3 (thorough 4) over 25 lexemes; every block type as root; 30 pumped families at N..8N. Each text goes through the real loads: the outcome must be a dict/list or a LarkError whose line/column lies inside the text (exactly at the offending character for an inserted '@'); no execution may exceed the horizon; load time must not grow super-linearly.",
    "Trusted: Lark's InteractiveParser for enumerating contexts only. Timing is decided by measurement with wide margins (ratio > 24 for an 8x size step, t >= 0.2 s, confirmed twice). OSError/ValueError from INCLUDE lines accepted (C15).",
    "DESIGN.md 2/C11, 1.7",
)

CHECKS["C10"] = (
    "bounded exhaustive enumeration of expression trees x parenthesisation/spacing/spelling variants through the real loads and dumps->loads, read back by a hand-written reference precedence parser",
    "All expression trees with <= 2 operators over every operator spelling (36 comparison/logical/arithmetic spellings, 4 unary) and all trees with <= 4 (thorough <= 5: 733k trees) operators over one representative per precedence class plus %, each rendered with minimal and with redundant parentheses, spaced and tight, placed in CLASS EXPRESSION (1-operator trees also in LAYER FILTER, CLASS TEXT, STYLE GEOMTRANSFORM, CLUSTER GROUP/FILTER): the normalised string stored by loads is parsed back by my own Pratt parser (the precedence ladder of the property) and must be exactly the intended tree (&& || ! as AND OR NOT, numbers by value, everything else verbatim and in order), and dumps->loads must reproduce the same string. Whole-value list expressions, regexes, function calls and bindings are checked verbatim.",
    "Trusted: mcf/exprmodel.py (self-checked: refparse(render(t)) == t for every generated tree). Clean parse errors for generated sources are counted, not judged. Unary minus on a numeric literal excluded.",
    "DESIGN.md 2/C10, 1.6",
)

CHECKS["C13"] = (
    "bounded exhaustive exploration of documents x comment decorations x the four include_position/include_comments combinations on the real loader and printer",
    "Every S1/S4/root-list document - plain, with a # comment after every statement, with a /* */ comment in every gap, and with every single placement of four comment kinds at every gap - and every corpus file is loaded under all four flag combinations: after deleting __position__/__comments__ the dictionary must be type- and order-identical to the plain load; printing a dictionary loaded with positions must be byte-identical to printing the plain one; printing one loaded with comments must contain, apart from comments, exactly the same tokens (own lexer). loads, open and load are bound together on real files for every flag combination.",
    "Trusted: mcf/reader.lex for separating comments from content.",
    "DESIGN.md 2/C13",
)
CHECKS["C14"] = (
    "bounded exhaustive exploration of comment placements (all singles, all pairs, thorough all triples, all-filled) with uniquely numbered comments; output read by the independent reader",
    "On every base document (rich nested documents, containment paths, shape-covering documents; one keyword per line) a uniquely numbered comment of three kinds (#, /* */, two-line /* */) is placed at every site - documented (end of each simple keyword line, above each object/METADATA/VALIDATION/CONNECTIONOPTIONS opener) and other (after END, inside values, on PROCESSING/CONFIG/pair lines, above VALUES/PROJECTION/POINTS/PATTERN) - exhaustively for 1 and 2 (thorough 3) simultaneous placements plus the all-sites-filled variants. After loads(include_comments=True) -> dumps every output comment must be a space-joined sequence of verbatim source comments, none written more often than in the source, the output must load to the same content as the comment-free output, trailing # comments must sit on their keyword's line and above-opener comments directly above that opener. All corpus files with their own comments get the first three clauses.",
    "Trusted: mcf/reader.py. A statement spread over lines by a comment inside its values no longer has a documented trailing site.",
    "DESIGN.md 2/C14",
)

CHECKS["C15"] = (
    "exhaustive enumeration of include trees (all rooted ordered trees <= 5 files x cut kinds), chains, cycles, missing files x path styles x line endings x entry points on real files, against my own textual substituter",
    "All rooted ordered include trees with up to 5 files (1+1+2+5+14 shapes), every non-root file cut either as a whole block or as keyword lines, under 8 path styles (relative/absolute, sub-directories, single/double/no quotes, upper/lower/mixed INCLUDE, trailing # comment), LF and CRLF, entered through open, load(file object), loads from the root directory and Parser.parse with a file name, each from a different working directory: the dictionary must equal loads of the text flattened by my own substituter. Chains of depth 0..7 (<= 5 expand, deeper raise), self and mutual cycles (raise, not RecursionError), missing files (OSError), and expand_includes=False round trips (directives kept as data and written back). Public open/load/loads bound on a subset.",
    "Trusted: my substituter and tree builder. INCLUDE directives on their own line outside strings/comments; scratch directory names without spaces.",
    "DESIGN.md 2/C15",
)
CHECKS["C19"] = (
    "exhaustive enumeration of the finite vocabulary product (block types, parent x child storage keys, slot x alternative x valid representative x position, defaults x versions) on the real grammar/transformer/printer/validator/create",
    "Every block type read from the grammar object of the running implementation x {has schema, parses at root, prints and re-loads, validates}; every containment edge x {key used by the transformer, printer writes the block, auto-creating dict creates list vs dict, parent schema validates}; every slot x alternative x schema-valid representative in positions first/middle/last among neutral fillers (S2) through loads, the printer's own schema lookup and validate; every declared default checked against its own keyword's schema by my evaluator and create(type, version) -> dumps -> loads -> validate for every type x every version boundary.",
    "Trusted: mcf/vocab.py representatives (written the way MapServer writes the alternative) and mcf/schemaeval.py.",
    "DESIGN.md 2/C19",
)
CHECKS["C20"] = (
    "exhaustive enumeration of Unicode scalar values through the file/stream/string front ends; CLI explored as real subprocesses over all 160 format option combinations, all file-kind subsets x versions and exit-status boundary error counts",
    "Every Unicode scalar value from U+0020 to U+10FFFF (surrogates, the output quote and CR excepted) plus TAB and LF is placed in keyword and METADATA string values (256 per string) and must survive dumps->loads, save->open, save->load, with save bytes == UTF-8 of dumps and dump == dumps. /venv/bin/mappyfile is run as a subprocess: format for all 160 combinations of indent/spacer/quote/newlinechar/expand/comments (quick: each combination on one of six documents, thorough on all) must write exactly save(open(IN, ...), ...)'s bytes; validate for every subset of size <= 3 of {valid, invalid, unparseable, missing} x 3 versions and for error counts 0-3, 254-258 (thorough 0..300, 511, 512) must print one line per message plus a summary and exit 0 iff every matched file parsed and validated, with the problem count when <= 255; schema for 10 versions must equal the API's versioned schema.",
    "Trusted: the OS file system and subprocess exit statuses.",
    "DESIGN.md 2/C20",
)

NOT_YET = {}



# additions made after the later waves of seeded changes (appended to the description of what is explored)
MORE = {
    "C01": " Document checks call the public mappyfile.loads/dumps (worker constructors memoised per call). S5 adds strings shaped like another lexical class of their slot (known finding).",
    "C08": " Plus: strings with combining / astral / full-width characters followed by further tokens on the line, and every CONFIG setting of the MAP schema with out-of-vocabulary values (any message must carry a CONFIG keyword's line/column).",
    "C09": " A minVersion/maxVersion written next to a $ref counts as an annotation. MAP documents are validated through the public mappyfile.validate; whole-number versions are also supplied as Python ints.",
    "C10": " Operand alphabets include hex-colour-shaped strings, back-quoted literals holding quotes/brackets, and comparisons against regular expressions holding brackets, quotes and operator words; whole-value list expressions with bindings; function calls whose argument is a parenthesised sub-expression.",
    "C12": " Histories (23 operations) include documents spelling equal numbers as int/float, results edited in place by the caller, parse_file followed by parse(text) with a relative INCLUDE, printing after a version-aware validate; schedules include dumps pairs with equal option sets (2 pre-emptions), equal layout options with different switches, different alignment columns, and open() of two directories with the same relative include names; purity also over documents whose comment lists hold 2-3 comments.",
    "C14": " Plus comment lines of their own above keywords and METADATA pairs, and hand-written documents (root key/value blocks, bare values ending in END, multi-line comments above nested blocks) x LF/CRLF sources x five option sets with a text-level oracle.",
    "C15": " Include file names holding shell / escape characters are taken verbatim. Plus: look-alike lines (comment delimiters / directive words inside strings and # comments) before and between INCLUDE lines, repeated INCLUDE names with expand_includes=False, root and include files reached through symbolic links.",
    "C11": " Plus INCLUDE lines with twenty kinds of broken quoting naming a file that exists.",
    "C17": " update() also with UserDict / ChainMap arguments; a missing object-list key is read on every nested dictionary of loaded documents. A second key alphabet on which lower() and casefold() disagree is run through the closure, and every nested dictionary of documents returned by loads is checked for class identity and an operation battery with respelled keys.",
    "C18": " Two-step histories with shared patch fragments (lists and dict-valued keys), upper-case patch keys against Mapfile dictionaries, findunique over falsy / mixed numeric values.",
    "C20": " validate file kinds include a file producing two identical messages.",
    "C19": " Plus: every value alternative must admit one of its own representatives under the keyword's whole schema (overlapping oneOf alternatives), and every positional document is re-parsed at the end of its shortest containment path and must yield the same object.",
    "C03": " Edit histories (39 operations) include hidden keys holding digits, underscores and capitals.",
    "C02": " S5 adds look-alikes of hex colours and keyword-valued words; PROJECTION / METADATA / CONFIG strings whose content begins and ends with the other quote.",
}


def main():
    props = [json.loads(l) for l in open(os.path.join(VERIF, "properties.jsonl"), encoding="utf-8")]
    checks = []
    na = []
    for p in props:
        pid = p["id"]
        if pid in CHECKS and os.path.exists(os.path.join(VERIF, "mcf", "props", pid.lower() + ".py")):
            tech, text, note, ref = CHECKS[pid]
            text = text + MORE.get(pid, "")
            checks.append({
                "property_id": pid,
                "quick_cmd": "./check %s --tier quick" % pid,
                "thorough_cmd": "./check %s --tier thorough" % pid,
                "evidence_file": "/verif/evidence/%s.json" % pid,
                "replay_cmd_template": "./check %s --replay {path}" % pid,
                "engine": "mcf",
                "level_claimed": {"category": "model_checking", "text": text, "design_ref": ref},
                "level_note": note,
                "technique": tech,
            })
        else:
            na.append({"property_id": pid, "reason": NOT_YET.get(pid, "check not built yet at this commit (work in progress; planned in DESIGN.md section 2/%s) - nothing is claimed for it" % pid)})
    m = {
        "version": 1,
        "setup_cmd": "./setup.sh",
        "hooks": {
            "guard": "MAPPYFILE_VERIF",
            "enable": "none needed: the checks drive the unmodified working tree of /repo (editable install in /venv) and observe it from outside (return values, sys.monitoring line events); ./check exports MAPPYFILE_VERIF=1 but no source in /repo reads it",
            "baseline_off_cmd": "cd /repo && /venv/bin/python -m pytest -ra -q -p no:cacheprovider --timeout=900 --continue-on-collection-errors",
            "source_commits": [],
            "add_only": True,
        },
        "engines": [{
            "name": "mcf",
            "path": "/verif/mcf",
            "serves_properties": [c["property_id"] for c in checks],
            "kind_free_text": "hand-written stateless / explicit-state bounded exhaustive explorer driving the real mappyfile code in /repo's working tree against independent reference models (no TLC/Spin model: the implementation is the transition function)",
        }],
        "checks": checks,
        "not_applicable": na,
        "notes": "All checks: cwd=/verif, ./check <ID> --tier quick|thorough; exit 0 = held on everything explored, exit 1 + 'VIOLATION property=<id> replay=<path>' otherwise, exit 2 = harness error (never a verdict). Known genuine defects are listed in known_findings.json and reported as KNOWN-FINDING lines.",
    }
    with open(os.path.join(VERIF, "MANIFEST.json"), "w", encoding="utf-8") as f:
        json.dump(m, f, indent=1)
        f.write("\n")
    print("checks:", [c["property_id"] for c in checks], "not_applicable:", len(na))


main()
