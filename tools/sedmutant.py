#!/venv/bin/python
"""usage: sedmutant.py <relative file> <old> <new> <CHECK>...   : builds a one-replacement patch and runs tools/mutant.sh on it"""
import os
import subprocess
import sys
import tempfile

f, old, new = sys.argv[1:4]
checks = sys.argv[4:]
src = open(os.path.join("/repo", f), encoding="utf-8").read()
if src.count(old) != 1:
    print("pattern occurs %d times" % src.count(old))
    sys.exit(2)
tmp = tempfile.mkdtemp(prefix="sm_")
a = os.path.join(tmp, "a", f)
b = os.path.join(tmp, "b", f)
os.makedirs(os.path.dirname(a))
os.makedirs(os.path.dirname(b))
open(a, "w", encoding="utf-8").write(src)
open(b, "w", encoding="utf-8").write(src.replace(old, new))
p = subprocess.run(["diff", "-u", "a/" + f, "b/" + f], cwd=tmp, capture_output=True, text=True)
patch = os.path.join(tmp, "m.diff")
open(patch, "w").write(p.stdout)
env = dict(os.environ)
r = subprocess.run(["/verif/tools/mutant.sh", patch] + checks, env=env)
subprocess.run(["rm", "-rf", tmp])
