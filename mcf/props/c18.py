"""C18 - update / find helpers obey their documented laws (reference implementations written from the property text)."""
from __future__ import annotations

import copy
import itertools

from .. import runner as R
from .. import docmodel as D

ID = "C18"
LEVEL_TEXT = ("exhaustive enumeration of all (d1, d2, overwrite) triples over a bounded dictionary grammar (type-compatible patches), on plain and "
              "Mapfile dictionaries, and of all item lists / queries / key paths up to a size bound, on the real update/find/findall/findunique/findkey "
              "against reference implementations; argument state compared before/after")
ASSUMPTIONS = ["type-incompatible patches, deletion of missing keys, None placeholders beyond the original list and a top-level __delete__ are unspecified and excluded",
               "reference implementations: ref_update / ref_find* below, written from the statement of C18"]

# ------------------------------------------------------------------ update
NESTED = [{}, {"a": 1}, {"b": 2}, {"a": 1, "b": 2}, {"a": {"a": 1}}]
LISTS1 = [[], [{"a": 1}], [{"a": 1}, {"b": 2}], [{"a": 1}, {"b": 2}, {"a": 3}]]
V1 = ["ABSENT", 1, [1, 2]] + NESTED + LISTS1
V2 = ["ABSENT", 2, "__delete__", [3], {"a": 2}, {"b": "__delete__"}, {"__delete__": True}, {"a": {"a": 2}}, {"b": {"b": 3}},
      [{"a": 2}], [None, {"a": 2}], [{"__delete__": True}], [{"a": 2}, {"b": 3}, {"a": 4}], [{"a": "__delete__"}],
      # a deletion FOLLOWED by further entries: later entries keep addressing the original indexes
      [{"__delete__": True}, {"a": 9}], [{"__delete__": True}, None, {"b": 9}], [{"__delete__": True}, {"__delete__": True}],
      [None, {"__delete__": True}, {"a": 9}], [{"a": 9}, {"__delete__": True}]]


def is_objlist(v):
    return isinstance(v, (list, tuple)) and all(x is None or isinstance(x, dict) for x in v)


def compatible(d1, d2):
    """is d2 a specified patch for d1?"""
    if d2.get("__delete__"):
        return False
    for k, y in d2.items():
        has = k in d1
        x = d1.get(k) if has else None
        if isinstance(y, dict):
            if y.get("__delete__"):
                if not has:
                    return False
            else:
                if has and not isinstance(x, dict):
                    return False
                if not compatible(x if has else {}, y):
                    return False
        elif is_objlist(y):
            if not y:
                return False
            if has and not (isinstance(x, list) and all(isinstance(i, dict) for i in x)):
                return False
            orig = x if has else []
            for i, n in enumerate(y):
                if n is None or n.get("__delete__"):
                    if i >= len(orig):
                        return False
                else:
                    if not compatible(orig[i] if i < len(orig) else {}, n):
                        return False
        else:
            if y == "__delete__" and not has:
                return False
    return True


def ref_update(d1, d2, overwrite=True):
    for k, v in d2.items():
        if isinstance(v, dict):
            if v.get("__delete__"):
                del d1[k]
            else:
                d1[k] = ref_update(d1[k] if k in d1 else {}, v, overwrite)
        elif is_objlist(v):
            orig = d1[k] if k in d1 else []
            new = []
            for i in range(max(len(orig), len(v))):
                o = orig[i] if i < len(orig) else None
                n = v[i] if i < len(v) else None
                if n is None:
                    new.append(o)
                elif n.get("__delete__"):
                    continue
                else:
                    new.append(ref_update(o if o is not None else {}, n, overwrite))
            d1[k] = new
        else:
            if v == "__delete__":
                del d1[k]
            elif overwrite or k not in d1:
                d1[k] = v
    return d1


def mk(d, mapfile):
    """build a fresh (plain or Mapfile) dictionary from a plain description"""
    if not mapfile:
        return copy.deepcopy(d)
    from mappyfile.ordereddict import CaseInsensitiveOrderedDict as CI

    def conv(x):
        if isinstance(x, dict):
            c = CI(CI)
            for k, v in x.items():
                c[k] = conv(v)
            return c
        if isinstance(x, list):
            return [conv(i) for i in x]
        return x

    return conv(d)


def dicts(values):
    out = []
    for a, b in itertools.product(values, repeat=2):
        d = {}
        if not (isinstance(a, str) and a == "ABSENT"):
            d["a"] = copy.deepcopy(a)
        if not (isinstance(b, str) and b == "ABSENT"):
            d["b"] = copy.deepcopy(b)
        out.append(d)
    return out


def units(tier):
    us = [("UPDATE", i) for i in range(16)] + [("FIND",), ("FINDLIST",), ("FINDKEY",), ("MAPFILE",), ("UPDATE2",), ("FUNUM",)]
    return us


def upper_keys(x):
    if isinstance(x, dict):
        return {(k if k.startswith("__") else k.upper()): upper_keys(v) for k, v in x.items()}
    if isinstance(x, list):
        return [upper_keys(v) for v in x]
    return x


def lower_keys(x):
    if isinstance(x, dict):
        return {k.lower(): lower_keys(v) for k, v in x.items()}
    if isinstance(x, list):
        return [lower_keys(v) for v in x]
    return x


def run_update(res, shard):
    import mappyfile

    d1s = dicts(V1)
    d2s = dicts(V2)
    n = 0
    for i, d1 in enumerate(d1s):
        if i % 16 != shard:
            continue
        for d2 in d2s:
            if not d2 or not compatible(d1, d2):
                R.add_outcome(res, "unspecified_patch_skipped")
                continue
            for overwrite in (True, False):
                for mapfile in (False, True, "upper"):
                    # "upper": d1 is a Mapfile dictionary (case-insensitive keys), the patch spells its keys in upper case
                    a1, a2 = mk(d1, bool(mapfile)), (upper_keys(copy.deepcopy(d2)) if mapfile == "upper" else mk(d2, mapfile))
                    snap2 = D.typed(a2)
                    exp = ref_update(copy.deepcopy(d1), copy.deepcopy(d2), overwrite)
                    res["evals"] += 1
                    n += 1
                    try:
                        out = mappyfile.update(a1, a2, overwrite)
                        got = D.plain(out)
                        if mapfile == "upper":
                            # sub-dictionaries created by update itself are plain dicts and keep the patch's spelling: compared with keys folded
                            got = lower_keys(got)
                        ok = D.typed(got) == D.typed(exp) and out is a1 and D.typed(a2) == snap2
                        why = "result %r, reference %r%s%s" % (D.plain(out), exp, "" if out is a1 else " (result is not d1)",
                                                             "" if D.typed(a2) == snap2 else " (d2 modified)")
                    except Exception as e:
                        ok, why = False, "raised %s: %s" % (type(e).__name__, e)
                    if ok:
                        R.add_outcome(res, "agrees")
                        res["states"].add(R.h64((D.typed(exp),)))
                    else:
                        R.add_outcome(res, "differs")
                        R.add_violation(res, "update|d1=%r d2=%r overwrite=%s" % (d1, d2, overwrite), "update differs from its documented law: " + why,
                                        {"op": "update", "d1": d1, "d2": d2, "overwrite": overwrite, "mapfile": mapfile}, None)
    R.add_sub(res, "update triples x {plain, Mapfile dict}", n)
    if shard == 0:
        R.add_sample(res, {"d1": d1s[37], "d2": d2s[40], "overwrite": True}, 1)


# ------------------------------------------------------------------ find
ITEMS = [None, "road", "roads", "x"]      # None: item lacking the key
QUERIES = ["road", "roads", ["road", "x"], "missing", ["roads"], "oad"]


def ref_find(lst, key, value):
    for it in lst:
        if key in it and it[key] == value:
            return it
    return None


def ref_findall(lst, key, value):
    vals = value if isinstance(value, (list, tuple, set)) else [value]
    return [it for it in lst if key in it and it[key] in vals]


def ref_findunique(lst, key):
    return sorted({it[key] for it in lst if key in it and it[key] is not None})


def run_find(res):
    import mappyfile

    n = 0
    for L in range(0, 4):
        for combo in itertools.product(ITEMS, repeat=L):
            for mapfile in (True, False):
                def build():
                    out = []
                    for i, g in enumerate(combo):
                        d = {"__type__": "layer", "name": "l%d" % i}
                        if g is not None:
                            d["group"] = g
                        out.append(mk(d, mapfile))
                    return out

                plain = [D.plain(x) for x in build()]
                for q in QUERIES:
                    for fname in ("find", "findall", "findunique"):
                        if fname == "find" and isinstance(q, list):
                            continue
                        if fname == "findunique" and q != "road":
                            continue
                        lst = build()
                        if not mapfile and None in combo and fname != "findunique":
                            # plain dicts lacking the key raise KeyError in find/findall: the helpers are documented for Mapfile dicts
                            continue
                        snap = [D.typed(x) for x in lst]
                        res["evals"] += 1
                        n += 1
                        try:
                            for key in ("group", "GROUP"):
                                if fname == "find":
                                    got = mappyfile.find(lst, key, q)
                                    exp = ref_find(plain, "group", q)
                                    same = (got is None and exp is None) or (got is not None and exp is not None and got is lst[plain.index(exp)])
                                elif fname == "findall":
                                    got = mappyfile.findall(lst, key, q)
                                    exp = ref_findall(plain, "group", q)
                                    same = len(got) == len(exp) and all(g is lst[plain.index(e)] for g, e in zip(got, exp))
                                else:
                                    got = mappyfile.findunique(lst, key)
                                    exp = ref_findunique(plain, "group")
                                    same = got == exp
                                if not same:
                                    break
                            why = "result %r, reference %r" % (D.plain(got) if not isinstance(got, list) else [D.plain(g) for g in got], exp)
                            if same and [D.typed(x) for x in lst] != snap:
                                same, why = False, "items were modified: %r" % ([D.plain(x) for x in lst],)
                        except Exception as e:
                            same, why = False, "raised %s: %s" % (type(e).__name__, e)
                        if same:
                            R.add_outcome(res, "agrees")
                            res["states"].add(R.h64((fname, combo, repr(q), mapfile)))
                        else:
                            R.add_outcome(res, "differs")
                            R.add_violation(res, "%s|groups=%r query=%r" % (fname, minimal_combo(fname, combo, q, mapfile), q),
                                            "%s differs from its documented law: %s" % (fname, why),
                                            {"op": fname, "groups": list(combo), "query": q, "mapfile": mapfile}, None)
    R.add_sub(res, "find/findall/findunique over item lists <= 3", n)
    R.add_sample(res, {"op": "findall", "groups": ["road", None, "roads"], "query": "roads"}, 1)


def find_case_fails(fname, combo, q, mapfile):
    import mappyfile

    lst = []
    for i, g in enumerate(combo):
        d = {"__type__": "layer", "name": "l%d" % i}
        if g is not None:
            d["group"] = g
        lst.append(mk(d, mapfile))
    plain = [D.plain(x) for x in lst]
    snap = [D.typed(x) for x in lst]
    try:
        if fname == "find":
            got, exp = mappyfile.find(lst, "group", q), ref_find(plain, "group", q)
            same = (got is None and exp is None) or (got is not None and exp is not None and got is lst[plain.index(exp)])
        elif fname == "findall":
            got, exp = mappyfile.findall(lst, "group", q), ref_findall(plain, "group", q)
            same = len(got) == len(exp) and all(g is lst[plain.index(e)] for g, e in zip(got, exp))
        else:
            same = mappyfile.findunique(lst, "group") == ref_findunique(plain, "group")
    except Exception:
        return True
    return (not same) or [D.typed(x) for x in lst] != snap


def minimal_combo(fname, combo, q, mapfile):
    combo = list(combo)
    changed = True
    while changed:
        changed = False
        for i in range(len(combo)):
            c = combo[:i] + combo[i + 1:]
            if find_case_fails(fname, c, q, mapfile):
                combo, changed = c, True
                break
    return combo


def run_find_listvalues(res):
    """find: 'the first item whose key equals the value' also when the value is a list (colours, sizes are lists in a Mapfile dict)"""
    import mappyfile

    vals = [None, [255, 0, 0], [0, 0, 0], 255, "255 0 0", 0, "", False]
    queries = [[255, 0, 0], [0, 0, 0], [1, 2, 3], 255, 0, "255 0 0", "", False]
    n = 0
    for L in range(0, 4):
        for combo in itertools.product(range(len(vals)), repeat=L):
            for q in queries:
                lst = []
                for i, vi in enumerate(combo):
                    d = {"__type__": "style", "width": i}
                    if vals[vi] is not None:
                        d["color"] = copy.deepcopy(vals[vi])
                    lst.append(mk(d, True))
                plain = [D.plain(x) for x in lst]
                snap = [D.typed(x) for x in lst]
                exp = ref_find(plain, "color", q)
                res["evals"] += 1
                n += 1
                try:
                    got = mappyfile.find(lst, "color", q)
                    same = (got is None and exp is None) or (got is not None and exp is not None and got is lst[plain.index(exp)])
                    why = "result %r, reference %r" % (D.plain(got) if got is not None else None, exp)
                    if same and [D.typed(x) for x in lst] != snap:
                        same, why = False, "items were modified"
                except Exception as e:
                    same, why = False, "raised %s: %s" % (type(e).__name__, e)
                if same:
                    R.add_outcome(res, "agrees")
                    res["states"].add(R.h64(("findlist", combo, repr(q))))
                else:
                    R.add_outcome(res, "differs")
                    R.add_violation(res, "find|colors=%r query=%r" % ([vals[i] for i in combo][-2:], q), "find with a list-valued value differs from its documented law: " + why,
                                    {"op": "findlist", "values": [vals[i] for i in combo], "query": q}, None)
    R.add_sub(res, "find with list-valued keys and queries", n)


def run_update2(res):
    """two-step histories: one patch object applied to two targets (and a patch list repeating one dict), then a second update
    addressing a single position; every step is compared with the reference run on deep copies (value semantics)"""
    import mappyfile

    bases = [{"a": []}, {"a": [{"a": 1}]}, {"a": [{"a": 1}, {"b": 2}]}, {}]
    item = {"b": 7}
    firsts = [("append one", lambda: {"a": [None, None, dict(item)]}), ("append same dict twice", None), ("new key list", lambda: {"b": [dict(item)]})]
    seconds = [{"a": [None, None, {"b": 8}]}, {"a": [None, None, None, {"a": 5}]}, {"b": [{"b": 9}]}, {"a": [None, None, {"b": "__delete__"}]}]
    n = 0
    for bi, base in enumerate(bases):
        for fname, fmk in firsts:
            for si, p2 in enumerate(seconds):
                for mapfile in (False, True):
                    if fmk is None:
                        shared = dict(item)
                        p1 = {"a": [None] * len(base.get("a", [])) + [shared, shared]}
                    else:
                        p1 = fmk()
                        if "a" in p1:
                            p1["a"] = [None] * len(base.get("a", [])) + p1["a"][2:]
                    if not compatible(base, p1):
                        continue
                    t1, t2 = mk(base, mapfile), mk(base, mapfile)
                    r1 = ref_update(copy.deepcopy(base), copy.deepcopy(p1))
                    r2 = ref_update(copy.deepcopy(base), copy.deepcopy(p1))
                    p2c = copy.deepcopy(p2)
                    # re-base the second patch onto the current length of the list
                    if "a" in p2c:
                        p2c["a"] = [None] * len(base.get("a", [])) + p2c["a"][2:]
                    if not compatible(r1, p2c):
                        continue
                    res["evals"] += 1
                    n += 1
                    try:
                        mappyfile.update(t1, p1)
                        mappyfile.update(t2, p1)          # the same patch object on a second target
                        mappyfile.update(t1, mk(p2c, False))
                        ref_update(r1, copy.deepcopy(p2c))
                        ok = D.typed(D.plain(t1)) == D.typed(r1) and D.typed(D.plain(t2)) == D.typed(r2)
                        why = "after update(t1,p1); update(t2,p1); update(t1,p2): t1=%r (reference %r), t2=%r (reference %r)" % (D.plain(t1), r1, D.plain(t2), r2)
                    except Exception as e:
                        ok, why = False, "raised %s: %s" % (type(e).__name__, e)
                    if ok:
                        R.add_outcome(res, "agrees")
                        res["states"].add(R.h64(("u2", bi, fname, si, mapfile)))
                    else:
                        R.add_outcome(res, "differs")
                        R.add_violation(res, "update2|base=%r first=%s second=%r" % (base, fname, p2c), "a second update changes something its patch does not mention: " + why,
                                        {"op": "update2"}, None)
    R.add_sub(res, "two-step update histories with shared patch objects", n)
    # ---- the same for dict-valued keys: one fragment object used under one or two keys and on two targets
    dbases = [{}, {"m": {"a": 1}}, {"m": {"a": 1}, "n": {"b": 2}}, {"a": 1}]
    dfirsts = [("new dict key", lambda s: {"m": s}), ("one fragment under two keys", lambda s: {"m": s, "n": s}),
               ("fragment nested", lambda s: {"m": {"a": s}}), ("fragment in a list and under a key", lambda s: {"m": s, "l": [s]})]
    frags = [{"b": 7}, {"b": 7, "c": {"d": 1}}, {"k": [None]}]
    dseconds = [{"m": {"b": 8}}, {"m": {"b": "__delete__"}}, {"n": {"z": 1}}, {"m": {"a": {"b": 9}}}, {"m": {"c": {"d": 2}}}, {"l": [{"b": 5}]}]
    m = 0
    for bi, base in enumerate(dbases):
        for fname, fmk in dfirsts:
            for fi, frag in enumerate(frags):
                if frag == {"k": [None]}:
                    continue        # a None placeholder beyond the original list is unspecified (see ASSUMPTIONS)
                for si, p2 in enumerate(dseconds):
                    for mapfile in (False, True):
                        p1 = fmk(copy.deepcopy(frag))
                        if not compatible(base, p1):
                            continue
                        r1 = ref_update(copy.deepcopy(base), copy.deepcopy(p1))
                        r2 = ref_update(copy.deepcopy(base), copy.deepcopy(p1))
                        if not compatible(r1, p2):
                            continue
                        p1_before = copy.deepcopy(p1)
                        t1, t2 = mk(base, mapfile), mk(base, mapfile)
                        res["evals"] += 1
                        m += 1
                        try:
                            mappyfile.update(t1, p1)
                            mappyfile.update(t2, p1)
                            mappyfile.update(t1, mk(p2, False))
                            ref_update(r1, copy.deepcopy(p2))
                            ok = D.typed(D.plain(t1)) == D.typed(r1) and D.typed(D.plain(t2)) == D.typed(r2)
                            why = "after update(t1,p1); update(t2,p1); update(t1,p2) with p1=%r: t1=%r (reference %r), t2=%r (reference %r)" % (
                                p1_before, D.plain(t1), r1, D.plain(t2), r2)
                        except Exception as e:
                            ok, why = False, "raised %s: %s" % (type(e).__name__, e)
                        if ok:
                            R.add_outcome(res, "agrees")
                            res["states"].add(R.h64(("u2d", bi, fname, fi, si, mapfile)))
                        else:
                            R.add_outcome(res, "differs")
                            R.add_violation(res, "update2|base=%r first=%s frag=%r second=%r" % (base, fname, frag, p2),
                                            "a second update changes something its patch does not mention: " + why, {"op": "update2"}, None)
    R.add_sub(res, "two-step update histories with a shared dict fragment", m)


def run_findunique_numbers(res):
    """findunique returns the sorted distinct values present - also for numeric keys holding ints and floats"""
    import mappyfile

    vals = [None, 500, 1000.5, 2500, 2, 2.0, 0, -1.5]
    n = 0
    for L in range(0, 4):
        for combo in itertools.product(range(len(vals)), repeat=L):
            lst = []
            for i, vi in enumerate(combo):
                d = {"__type__": "class", "name": "c%d" % i}
                if vals[vi] is not None:
                    d["maxscaledenom"] = vals[vi]
                lst.append(mk(d, True))
            exp = sorted({vals[vi] for vi in combo if vals[vi] is not None})
            res["evals"] += 1
            n += 1
            try:
                got = mappyfile.findunique(lst, "maxscaledenom")
                ok = got == exp and all(type(a) is type(b) or a == b for a, b in zip(got, exp))
                why = "result %r, reference %r" % (got, exp)
            except Exception as e:
                ok, why = False, "raised %s: %s" % (type(e).__name__, e)
            if ok:
                R.add_outcome(res, "agrees")
                res["states"].add(R.h64(("fu", combo)))
            else:
                R.add_outcome(res, "differs")
                R.add_violation(res, "findunique|values=%r" % ([vals[i] for i in combo],), "findunique differs from the sorted distinct values: " + why, {"op": "findunique_numbers"}, None)
    R.add_sub(res, "findunique over numeric values", n)


def run_findkey(res):
    import mappyfile

    base = {"__type__": "map", "name": "m", "layers": [
        {"__type__": "layer", "name": "l0", "classes": [{"__type__": "class", "name": "c0"}, {"__type__": "class", "name": "c1"}]},
        {"__type__": "layer", "name": "l1", "metadata": {"k": "v"}}], "web": {"__type__": "web", "metadata": {"a": "b"}}}
    steps = ["name", "layers", "web", "classes", "metadata", 0, 1, "k", "a", "NAME", "Layers"]

    def ref(d, path):
        for p in path:
            if isinstance(p, str):
                p = p.lower()
                if not isinstance(d, dict) or p not in d:
                    raise KeyError(p)
            else:
                if not isinstance(d, list) or p >= len(d):
                    raise IndexError(p)
            d = d[p]
        return d

    n = 0
    for L in range(0, 4):
        for path in itertools.product(steps, repeat=L):
            try:
                exp = ("ok", D.typed(ref(base, path)))
            except (KeyError, IndexError):
                continue      # paths that do not exist are unspecified
            d = mk(base, True)
            snap = D.typed(d)
            res["evals"] += 1
            n += 1
            try:
                got = ("ok", D.typed(D.plain(mappyfile.findkey(d, *path))))
            except Exception as e:
                got = ("exc", type(e).__name__)
            if got == exp and D.typed(d) == snap:
                R.add_outcome(res, "agrees")
                res["states"].add(R.h64(path))
            else:
                R.add_outcome(res, "differs")
                R.add_violation(res, "findkey|%r" % (path,), "findkey differs from path lookup (or modified its argument): %r vs %r" % (got, exp),
                                {"op": "findkey", "path": list(path)}, None)
    R.add_sub(res, "findkey over all existing paths <= 3", n)


def run_mapfile(res):
    """the same laws on dictionaries produced by loads (positions / comments on): argument purity of the query helpers"""
    import mappyfile

    text = 'MAP LAYER NAME "a" GROUP "road" TYPE LINE END LAYER NAME "b" TYPE POINT END LAYER NAME "c" GROUP "roads" TYPE LINE END END'
    for flags in ({}, {"include_position": True}, {"include_comments": True}):
        d = mappyfile.loads(text, **flags)
        snap = D.typed(d)
        try:
            run_mapfile_one(res, mappyfile, d, snap, flags)
        except Exception as e:
            res["evals"] += 1
            R.add_violation(res, "mapfile|%r" % (flags,), "query helpers on a loaded Mapfile raised %s: %s (dictionary modified: %s)" % (
                type(e).__name__, e, D.typed(d) != snap), {"op": "mapfile", "flags": flags}, None)
    R.add_sub(res, "loaded Mapfile", 12)


def run_mapfile_one(res, mappyfile, d, snap, flags):
    if True:
        outs = [
            ("find", mappyfile.find(d["layers"], "group", "roads"), d["layers"][2]),
            ("find-missing", mappyfile.find(d["layers"], "group", "zz"), None),
        ]
        fa = mappyfile.findall(d["layers"], "group", "roads")
        fu = mappyfile.findunique(d["layers"], "group")
        res["evals"] += 4
        ok = all(a is b for _, a, b in outs) and len(fa) == 1 and fa[0] is d["layers"][2] and fu == ["road", "roads"] and D.typed(d) == snap
        if ok:
            R.add_outcome(res, "agrees")
            res["states"].add(R.h64(repr(flags)))
        else:
            R.add_violation(res, "mapfile|%r" % (flags,), "query helpers on a loaded Mapfile: wrong result or the dictionary was modified (%r)" % (
                [n for n, a, b in outs if a is not b] + (["findall"] if not (len(fa) == 1 and fa[0] is d["layers"][2]) else []) +
                (["modified"] if D.typed(d) != snap else []),), {"op": "mapfile", "flags": flags}, None)


def run_unit(unit):
    res = R.new_result()
    if unit[0] == "UPDATE":
        run_update(res, unit[1])
    elif unit[0] == "FIND":
        run_find(res)
    elif unit[0] == "FINDLIST":
        run_find_listvalues(res)
    elif unit[0] == "UPDATE2":
        run_update2(res)
    elif unit[0] == "FUNUM":
        run_findunique_numbers(res)
    elif unit[0] == "FINDKEY":
        run_findkey(res)
    else:
        run_mapfile(res)
    return res


def describe(tier):
    return {"rule": "case = one call with arguments from the bounded grammar; state = distinct expected result",
            "bounds": {"d1_values": len(V1), "d2_values": len(V2), "keys": ["a", "b"], "item_lists": "<= 3 items over %r" % (ITEMS,), "queries": QUERIES,
                       "findkey_paths": "<= 3 steps"}}


def replay(case):
    import mappyfile

    if case["op"] == "update":
        upper = case["mapfile"] == "upper"
        a1 = mk(case["d1"], bool(case["mapfile"]))
        a2 = upper_keys(copy.deepcopy(case["d2"])) if upper else mk(case["d2"], case["mapfile"])
        exp = ref_update(copy.deepcopy(case["d1"]), copy.deepcopy(case["d2"]), case["overwrite"])
        try:
            out = mappyfile.update(a1, a2, case["overwrite"])
        except Exception as e:
            return {"raised": repr(e)}
        got = lower_keys(D.plain(out)) if upper else D.plain(out)
        return None if D.typed(got) == D.typed(exp) else {"got": D.plain(out), "expected": exp}
    if case["op"] in ("find", "findall", "findunique"):
        return {"fails": True} if find_case_fails(case["op"], case["groups"], case["query"], case["mapfile"]) else None
    return None
