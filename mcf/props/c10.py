"""C10 - expression rewriting preserves structure (reference precedence parser as oracle)."""
from __future__ import annotations

from .. import runner as R
from .. import exprmodel as E
from .. import impl

ID = "C10"
LEVEL_TEXT = ("bounded exhaustive enumeration of expression trees (all trees with <= 2 operators over every operator spelling; all trees with "
              "<= 4, thorough <= 5, operators over one representative per precedence class) x parenthesisation/spacing variants, through the real "
              "loads and dumps->loads; the normalised string is parsed back by a hand-written reference precedence parser and must be the intended tree")
ASSUMPTIONS = ["reference parser: mcf/exprmodel.refparse (ladder OR < AND < NOT < comparisons < + - < * / % ^ < unary minus, left associative)",
               "a clean parse error for a generated source is counted as 'rejected' and not judged here (vocabulary acceptance is C19's subject)",
               "unary minus applied directly to a numeric literal is excluded (every reader lexes it as a signed number)"]

POSITIONS = [("class", "expression"), ("layer", "filter"), ("class", "text"), ("style", "geomtransform"), ("cluster", "group"), ("cluster", "filter")]
VARIANTS = [(False, False), (True, False), (False, True), (True, True)]     # (full parentheses, tight spacing)


def units(tier):
    us = []
    nmax = 4 if tier == "quick" else 5
    for n in range(1, nmax + 1):
        k = 1 if n <= 2 else (8 if n == 3 else 64 if n == 4 else 256)
        us += [("CLASSREP", n, i, k, n <= 3 or tier == "thorough") for i in range(k)]
    us += [("FULL", 1, 0, 1), ("WHOLE",)] + [("FULL", 2, i, 16) for i in range(16)]
    us += [("AWKWARD", n, i, 4 if n < 3 else 16, True) for n in (1, 2, 3) for i in range(4 if n < 3 else 16)]
    us += [("SKELETON", n, i, 4 if n < 3 else 16, False) for n in (1, 2, 3) for i in range(4 if n < 3 else 16)]
    us += [("SKELETON_RX", n, i, 4 if n < 3 else 16, False) for n in (0, 1, 2, 3) for i in range(4 if n < 3 else 16)]
    return us


def doc(otype, key, src):
    extra = "TYPE POINT " if otype == "layer" else ""
    return "%s %s%s (%s) END" % (otype.upper(), extra, key.upper(), src)


def judge(ast, full, tight, otype="class", key="expression"):
    """(category, message, source)"""
    src = E.render(ast, full, tight)
    text = doc(otype, key, src)
    try:
        d = impl.loads(text)
    except Exception as e:
        if impl.is_lark_error(e) and impl.exc_name(e) in ("UnexpectedToken", "UnexpectedCharacters", "UnexpectedEOF", "UnexpectedInput"):
            return "rejected", impl.exc_name(e), src
        return "exc:" + impl.exc_name(e), str(e).replace("\n", " ")[:160], src
    v = d.get(key)
    if not isinstance(v, str):
        return "notstring", "value is %r" % (v,), src
    try:
        got = E.refparse(v)
    except E.RefParseError as e:
        return "unreadable", "normalised string %r cannot be read back: %s" % (v, e), src
    want = E.normal(ast)
    if got != want:
        return "regrouped", "source (%s) normalised to %r which denotes %s, intended %s" % (src, v, show(got), show(want)), src
    try:
        v2 = impl.loads(impl.dumps(d)).get(key)
    except Exception as e:
        return "roundtrip_exc", "normalised string %r is not re-parsed after dumps: %s" % (v, impl.exc_name(e)), src
    if v2 != v:
        return "roundtrip", "re-parsing the normalised string %r gives %r" % (v, v2), src
    return None, v, src


def show(n):
    k = n[0]
    if k == "atom":
        return n[1]
    if k == "num":
        return repr(n[1])
    if k in ("or", "and"):
        return "%s(%s, %s)" % (k.upper(), show(n[2]), show(n[3]))
    if k == "not":
        return "NOT(%s)" % show(n[2])
    if k in ("cmp", "bin"):
        return "{%s %s %s}" % (show(n[2]), n[1], show(n[3]))
    if k == "neg":
        return "neg(%s)" % show(n[1])
    if k == "call":
        return "%s(%s)" % (n[1], ",".join(show(a) for a in n[2]))
    return repr(n)


def children(ast):
    k = ast[0]
    if k in ("or", "and", "cmp", "bin"):
        return [ast[2], ast[3]]
    if k == "not":
        return [ast[2]]
    if k == "neg":
        return [ast[1]]
    return []


def smaller(ast, top=True):
    """candidate simplifications: hoist a child, or simplify inside a child"""
    for c in children(ast):
        if c[0] != "atom" or not top:
            yield c
    k = ast[0]
    if k in ("or", "and", "cmp", "bin"):
        for s in smaller(ast[2], False):
            yield ast[:2] + (s, ast[3])
        for s in smaller(ast[3], False):
            yield ast[:2] + (ast[2], s)
        if ast[2][0] != "atom":
            yield ast[:2] + (("atom", "[x]"), ast[3])
        if ast[3][0] != "atom":
            yield ast[:2] + (ast[2], ("atom", "[y]"))
    elif k == "not":
        for s in smaller(ast[2], False):
            yield ast[:2] + (s,)
    elif k == "neg":
        for s in smaller(ast[1], False):
            yield ("neg", s)


def minimise(ast, full, tight, cat):
    cur = ast
    changed = True
    n = 0
    while changed and n < 200:
        changed = False
        for c in smaller(cur):
            n += 1
            if E.well_formed(c) and judge(c, full, tight)[0] == cat:
                cur, changed = c, True
                break
    return cur


def rename(ast, names=None):
    """canonical operand names in order of appearance (kind of operand kept: binding / number / string)"""
    if names is None:
        names = {"n": 0}
    k = ast[0]
    if k == "atom":
        t = ast[1]
        if t.startswith("["):
            names["n"] += 1
            return ("atom", "[%s]" % "abcdefgh"[names["n"] - 1])
        return ast
    return tuple(rename(c, names) if isinstance(c, tuple) else c for c in ast)


def check(res, ast, full, tight, otype="class", key="expression"):
    cat, msg, src = judge(ast, full, tight, otype, key)
    res["evals"] += 1
    if cat is None:
        R.add_outcome(res, "structure_preserved")
        res["states"].add(R.h64(msg))
        return
    if cat == "rejected":
        R.add_outcome(res, "rejected(not judged)")
        return
    R.add_outcome(res, cat)
    small = minimise(ast, full, tight, cat) if (otype, key) == ("class", "expression") else ast
    ren = rename(small)
    if (otype, key) == ("class", "expression") and judge(ren, full, tight)[0] == cat:
        small = ren
    if full and judge(small, False, tight, otype, key)[0] == cat:
        full = False
    if tight and judge(small, full, False, otype, key)[0] == cat:
        tight = False
    cat2, msg2, src2 = judge(small, full, tight, otype, key)
    R.add_violation(res, "%s|(%s)%s" % (cat, src2, "" if (otype, key) == ("class", "expression") else "|%s.%s" % (otype, key)),
                    "expression structure not preserved: " + (msg2 or msg), {"ast": small, "full": full, "tight": tight, "otype": otype, "key": key}, {"original_source": src})


def run_unit(unit):
    res = R.new_result()
    if unit[0] == "WHOLE":
        return run_whole(res)
    kind, n, shard, k = unit[:4]
    if kind in ("CLASSREP", "AWKWARD", "SKELETON", "SKELETON_RX"):
        all_variants = unit[4]
        rotations = [None]
        if kind == "AWKWARD":
            # every rotation of the awkward operand list, so that each awkward operand reaches each leaf position
            aw = E.OPERANDS_AWKWARD
            rotations = [aw[r:] + aw[:r] for r in range(len(aw))]
        if kind == "SKELETON":
            # skeleton operators over leaves that are small expressions themselves (up to 3 + 4 = 7 operators per tree), every rotation
            sl = E.SUBTREE_LEAVES
            rotations = [sl[r:] + sl[:r] for r in range(len(sl))]
        if kind == "SKELETON_RX":
            # the same with comparisons against regular expressions that hold brackets / quotes / operator words
            sl = E.REGEX_LEAVES
            rotations = [sl[r:] + sl[:r] for r in range(len(sl))]
        for ops_ in rotations:
            for i, ast in enumerate(list(E.asts(n, ["OR", "AND", "="] if kind == "SKELETON_RX" else E.CLASS_BIN, E.CLASS_UN[:1] if kind == "SKELETON_RX" else E.CLASS_UN, ops_))):
                if i % k != shard or not E.well_formed(ast):
                    continue
                for full, tight in (VARIANTS if all_variants else VARIANTS[:1]):
                    check(res, ast, full, tight)
        R.add_sub(res, "trees with %d operators, one representative per precedence class" % n, res["evals"])
        if shard == 0:
            R.add_sample(res, {"operators": n, "example_source": E.render(ast, False, False)}, 1)
    else:
        for i, ast in enumerate(E.asts(n, E.FULL_BIN, E.FULL_UN)):
            if i % k != shard or not E.well_formed(ast):
                continue
            for full, tight in VARIANTS:
                check(res, ast, full, tight)
            if n == 1:
                for otype, key in POSITIONS[1:]:
                    check(res, ast, False, False, otype, key)
        R.add_sub(res, "trees with %d operators over every operator spelling" % n, res["evals"])
    return res


WHOLE = [
    ("class", "expression", "{a,b}", "{a,b}"), ("class", "expression", "{a b,c}", "{a b,c}"), ("class", "expression", "/^ab+$/", "/^ab+$/"),
    ("class", "expression", "/x/i", "/x/i"), ("class", "text", "[name]", "[name]"), ("label", "text", "[name]", "[name]"),
    ("class", "text", '(tostring([area],"%.2f"))', '(tostring([area],"%.2f"))'), ("layer", "filter", "/re/", "/re/"),
    ("style", "geomtransform", "(buffer([shape], 5))", "(buffer([shape],5))"), ("class", "expression", '("[a]" = "x")', '( "[a]" = "x" )'),
    ("class", "expression", "([a] IN 'x,y')", "( [a] IN 'x,y' )"), ("class", "expression", "(`2020-01-01` > [d])", "( `2020-01-01` > [d] )"),
    ("class", "expression", "{007,012}", "{007,012}"), ("class", "expression", "{1.50,2.00}", "{1.50,2.00}"), ("class", "expression", "{+5,-3}", "{+5,-3}"),
    ("class", "expression", "{1e3,x}", "{1e3,x}"), ("class", "expression", "{true,FALSE,Null}", "{true,FALSE,Null}"), ("class", "expression", "{a,'b c',\"d\"}", "{a,'b c',\"d\"}"),
    ("class", "expression", "([a] IN {1.50,2})", "( [a] IN {1.50,2} )"), ("class", "expression", "/^0+1\\.50$/i", "/^0+1\\.50$/i"),
    ("class", "text", "(tostring([a_B],'%05.1f x'))", "(tostring([a_B],'%05.1f x'))"), ("class", "text", "[ATTR_Name]", "[ATTR_Name]"),
    ("class", "expression", "{[b],[c]}", "{[b],[c]}"), ("class", "expression", "([a] IN {[b],x,[c_D]})", "( [a] IN {[b],x,[c_D]} )"),
    ("class", "expression", '{"#FF0000",\'#00ff00\'}', '{"#FF0000",\'#00ff00\'}'), ("class", "expression", '("[c]" = "#FF0000")', '( "[c]" = "#FF0000" )'),
    ("class", "expression", "('#FfF' = [c])", "( '#FfF' = [c] )"), ("class", "expression", "([a] ~ /a)b/)", "( [a] ~ /a)b/ )"),
    ("layer", "filter", "([a] ~* /(x/)", "( [a] ~* /(x/ )"), ("class", "text", '(tostring([a],"#FFF"))', '(tostring([a],"#FFF"))'),
]


def run_whole(res):
    for otype, key, src, want in WHOLE:
        extra = "TYPE POINT " if otype == "layer" else ""
        text = "%s %s%s %s END" % (otype.upper(), extra, key.upper(), src)
        res["evals"] += 1
        try:
            d = impl.loads(text)
            v = d[key]
            v2 = impl.loads(impl.dumps(d))[key]
        except Exception as e:
            R.add_violation(res, "whole_exc|" + text, "%s: %s" % (impl.exc_name(e), str(e)[:100]), {"text": text}, None)
            continue
        norm = lambda s: s.replace(" ", "")  # noqa: E731
        if norm(v) != norm(want) or v2 != v:
            R.add_violation(res, "whole|" + text, "elements not kept verbatim: %r (expected %r), after dumps/loads %r" % (v, want, v2), {"text": text, "want": want}, None)
        else:
            R.add_outcome(res, "verbatim")
            res["states"].add(R.h64(v))
    R.add_sub(res, "list expressions, regexes, function calls, bindings as whole values", len(WHOLE))
    return res


def describe(tier):
    return {"rule": "case = (expression tree, parenthesisation, spacing, position); state = distinct normalised string",
            "bounds": {"max_operators_class_representatives": 4 if tier == "quick" else 5, "max_operators_full_spelling": 2,
                       "binary_spellings": len(E.FULL_BIN), "unary_spellings": len(E.FULL_UN), "class_representatives": E.CLASS_BIN + E.CLASS_UN,
                       "variants": "minimal/full parentheses x spaced/tight", "positions": ["%s.%s" % p for p in POSITIONS]}}


def tup(x):
    return tuple(tup(i) for i in x) if isinstance(x, list) else x


def replay(case):
    if "ast" in case:
        cat, msg, src = judge(tup(case["ast"]), case["full"], case["tight"], case["otype"], case["key"])
        return {"category": cat, "message": msg, "source": src} if cat and cat != "rejected" else None
    return None
