"""C19 - grammar, keyword tables and schemas describe one vocabulary (finite product, enumerated exhaustively)."""
from __future__ import annotations

import copy

from .. import runner as R
from .c09 import contexts, embed
from .. import vocab as V
from .. import docmodel as D
from .. import spaces as S
from .. import docprop as P
from .. import schemaeval as SE
from .. import impl

ID = "C19"
LEVEL_TEXT = ("exhaustive enumeration of the finite vocabulary product on the real code: every block type the running grammar opens x {schema, root "
              "parse, print, validate}; every parent x child storage key in transformer / printer / auto-creating dict / parent schema; every slot x "
              "alternative x schema-valid representative x position {first, middle, last} through loads, the printer's schema lookup and validate; "
              "every schema x declared default x version boundary through create -> dumps -> loads -> validate")
ASSUMPTIONS = ["representatives are written the way MapServer writes the alternative (mcf/vocab.reps_for); only schema-valid representatives are required to validate",
               "validity oracle: mcf/schemaeval on the raw schema files"]


def units(tier):
    us = [("TYPES",), ("STORAGE",), ("DEFAULTS",), ("ALTS",)]
    us += [("SLOTS", t) for t in V.object_types()]
    return us


# ------------------------------------------------------------------ block types
def grammar_block_types():
    """block openers read from the grammar object of the running implementation"""
    lark = impl.parser(True, False).lalr
    types = []
    for rule in lark.rules:
        if rule.origin.name == "composite_type":
            for sym in rule.expansion:
                types.append(sym.name.lower())
    return sorted(set(types))


def run_types(res):
    gtypes = grammar_block_types()
    schema_types = set(V.object_types())
    for t in sorted(set(gtypes) | schema_types):
        facts = {}
        facts["in_grammar"] = t in gtypes
        facts["has_schema"] = t in schema_types
        text = "%s\nEND" % t.upper()
        if t in schema_types:
            text = D.render(S.min_block(t, 2))[0]
        try:
            d = impl.loads(text)
            facts["parses_at_root"] = isinstance(d, dict) and d.get("__type__") == t
        except Exception as e:
            facts["parses_at_root"] = "raises %s" % impl.exc_name(e)
            d = None
        if d is not None:
            try:
                out = impl.dumps(d)
                facts["prints"] = out.split()[0] == t.upper() and D.typed(impl.loads(out)) == D.typed(d)
            except Exception as e:
                facts["prints"] = "raises %s" % impl.exc_name(e)
            try:
                facts["validates"] = impl.validate(d, schema_name=t) == []
            except Exception as e:
                facts["validates"] = "raises %s" % impl.exc_name(e)
        res["evals"] += 1
        bad = {k: v for k, v in facts.items() if v is not True}
        if bad:
            R.add_outcome(res, "type_inconsistent")
            R.add_violation(res, "type|%s|%s" % (t, ",".join(sorted(bad))), "block type %s: %s" % (t.upper(), bad), {"type": t}, None)
        else:
            R.add_outcome(res, "type_consistent")
            res["states"].add(R.h64(("type", t)))
    # SYMBOLSET and the key/value blocks the grammar accepts at the root
    for text, schema in (("SYMBOLSET\n  SYMBOL\n    NAME 'x'\n  END\nEND", "symbolset"), ('METADATA\n  "a" "b"\nEND', "metadata"),
                         ('VALIDATION\n  "a" "b"\nEND', "validation"), ('CONNECTIONOPTIONS\n  "a" "b"\nEND', "connectionoptions")):
        res["evals"] += 1
        try:
            d = impl.loads(text)
            ok = D.typed(impl.loads(impl.dumps(d))) == D.typed(d) and impl.validate(d, schema_name=schema) == []
            why = "round trip / validation"
        except Exception as e:
            ok, why = False, impl.exc_name(e)
        if ok:
            R.add_outcome(res, "type_consistent")
            res["states"].add(R.h64(("type", schema)))
        else:
            R.add_violation(res, "type|%s" % schema, "root block %s fails %s" % (schema.upper(), why), {"type": schema}, None)
    R.add_sub(res, "block types x {grammar, schema, root parse, print, validate}", res["evals"])
    R.add_sample(res, {"grammar_block_types": gtypes}, 1)


# ------------------------------------------------------------------ storage keys
def run_storage(res):
    from mappyfile.ordereddict import CaseInsensitiveOrderedDict as CI

    for parent, edges in V.containment().items():
        for key, child, how in edges:
            text = D.render(D.Block(parent, [{"child": D.child, "children": D.children, "inline": D.inline}[how](key, S.min_block(child, 1))] +
                                    [D.kw(r, V.reps_for(V.slot(parent, r), V.slot(parent, r).alts[0], valid_only=True)[0]) for r in V.required(parent)]))[0]
            res["evals"] += 1
            facts = {}
            try:
                d = impl.loads(text)
                stored = [k for k, v in d.items() if not D.hidden(k) and (isinstance(v, dict) and v.get("__type__") == child or
                                                                          (isinstance(v, list) and v and isinstance(v[0], dict) and v[0].get("__type__") == child))]
                facts["transformer_key"] = stored == [key] or "stored under %r, schema key %r" % (stored, key)
                if how == "children":
                    facts["list_in_transformer"] = isinstance(d.get(key), list) or "not a list"
                else:
                    facts["dict_in_transformer"] = isinstance(d.get(key), dict) or "not a nested dict (%s)" % type(d.get(key)).__name__
                out = impl.dumps(d)
                facts["printer_writes_block"] = (child.upper() in out.split()) and D.typed(impl.loads(out)) == D.typed(d)
                facts["validates"] = impl.validate(d, schema_name=parent) == [] or "messages %r" % [m["message"] for m in impl.validate(d, schema_name=parent)]
            except Exception as e:
                facts["pipeline"] = "raises %s" % impl.exc_name(e)
            # auto-creating dict
            ci = CI(CI)
            v = ci[key]
            if how == "children":
                facts["autocreate_list"] = isinstance(v, list) or "reading missing %r creates %s" % (key, type(v).__name__)
            else:
                facts["autocreate_not_list"] = (not isinstance(v, list)) or "reading missing %r creates a list" % key
            bad = {k: v for k, v in facts.items() if v is not True}
            if bad:
                R.add_outcome(res, "storage_inconsistent")
                R.add_violation(res, "storage|%s.%s(%s)|%s" % (parent, key, how, ",".join(sorted(bad))), "block %s inside %s: %s" % (child.upper(), parent.upper(), bad),
                                {"text": text, "parent": parent, "key": key}, None)
            else:
                R.add_outcome(res, "storage_consistent")
                res["states"].add(R.h64(("storage", parent, key)))
    R.add_sub(res, "parent x child storage (transformer, printer, auto-creating dict, schema)", res["evals"])


# ------------------------------------------------------------------ slots
def judge_slot_doc(tree):
    """(category, message)"""
    text = D.render(tree)[0]
    try:
        d = impl.loads(text)
    except Exception as e:
        return "unparsed:" + impl.exc_name(e), str(e).split("\n")[0][:120]
    # every keyword written must be found by the printer's schema lookup
    pr = impl.printer()
    for _, b in P.sub_blocks(tree):
        pass
    for otype, key in keys_of(d):
        if key in V.KV_BLOCKS or key in ("config", "projection", "points", "pattern") or key in V.object_list_keys():
            continue
        try:
            props = pr.get_attribute_properties(otype, key)
        except Exception as e:
            return "lookup_raises", "%s.%s: %s" % (otype, key, impl.exc_name(e))
        if not props:
            return "lookup_miss", "printer's schema lookup does not find %s.%s" % (otype, key)
    try:
        msgs = impl.validate(d, schema_name=tree.type)
    except Exception as e:
        return "validate_raises", impl.exc_name(e)
    if msgs:
        # the expectation: my evaluator says valid (representatives are valid_only)
        mine = list(SE.errors(SE.lower_json(D.plain(d)), SE.resolve(tree.type)))
        return "invalid", "schema-valid representative does not validate: %s (own evaluator on the loaded dictionary: %s)" % (
            [m["message"].rsplit(" ", 1)[1] + ": " + m["error"][:60] for m in msgs][:2], mine[:2])
    try:
        out = impl.dumps(d)
        if D.typed(impl.loads(out)) != D.typed(d):
            return "roundtrip", "printed text loads differently (C01)"
    except Exception as e:
        return "print_raises", impl.exc_name(e)
    return None, None


def keys_of(d):
    if isinstance(d, dict):
        t = d.get("__type__")
        for k, v in d.items():
            if D.hidden(k):
                continue
            if t in V.object_types():
                yield t, k
            if isinstance(v, (dict, list)):
                yield from keys_of(v)
    elif isinstance(d, list):
        for x in d:
            yield from keys_of(x)


def with_required(tree):
    t = P.clone(tree)
    for _, b in P.sub_blocks(t):
        have = [it[1] for it in b.items if it[0] == "kw"]
        for r in V.required(b.type):
            if r not in have:
                s = V.slot(b.type, r)
                b.items.append(D.kw(r, V.reps_for(s, s.alts[0], valid_only=True)[0]))
    return t


_NESTED = {}


def nested_contexts(otype):
    """the shortest containment path (from any root type) that ends in otype - one nested context per type"""
    if otype not in _NESTED:
        # inline SYMBOL blocks (CLASS/STYLE SYMBOL ... END) are the subject of a known finding (stored under "symbols"): not used as context
        ctxs = [c for c in contexts(otype) if c[1] is not None and all(e[3] != "inline" for e in c[1])]
        ctxs.sort(key=lambda c: (len(c[1]), c[0]))
        _NESTED[otype] = ctxs[:1]
    return _NESTED[otype]


def run_slots(res, otype):
    n = 0
    for label, tree in S.s2(otype, valid_only=True):
        tree = with_required(tree)
        if list(SE.errors(SE.lower_json(D.plain(D.expected(tree))), SE.resolve(otype))):
            # the generated document itself is not schema-valid (e.g. an empty PROJECTION, two LABELs in a LEGEND):
            # nothing is claimed for it here (C01/C02 still cover its parsing)
            R.add_outcome(res, "document_not_schema_valid(not judged)")
            continue
        cat, msg = judge_slot_doc(tree)
        res["evals"] += 1
        n += 1
        if cat is None:
            R.add_outcome(res, "slot_consistent")
            res["states"].add(R.h64(D.render(tree)[0]))
            # the same object at the end of its shortest containment path: still parsed, to the same object
            for cname, path in nested_contexts(otype):
                ntext = D.render(embed(path, tree))[0]
                res["evals"] += 1
                try:
                    nd = impl.loads(ntext)
                    inner = nd
                    for parent, key, ct, how in path:
                        inner = inner[key]
                        if isinstance(inner, list):
                            inner = inner[0]
                    same = D.typed(inner) == D.typed(impl.loads(D.render(tree)[0]))
                    why = "the nested object differs from the same object at the root"
                except Exception as e:
                    same, why = False, "%s: %s" % (impl.exc_name(e), str(e).replace("\n", " ")[:120])
                if same:
                    R.add_outcome(res, "slot_consistent_nested")
                else:
                    R.add_outcome(res, "nested_differs")
                    R.add_violation(res, "nested|%s|%s" % (cname, P.oneline(tree)), "a document accepted at the root is not parsed (to the same object) inside its parent: " + why,
                                    {"tree": D.describe(tree), "nested": cname}, None)
            continue
        R.add_outcome(res, cat.split(":")[0])

        def pred(t):
            return judge_slot_doc(with_required(t))[0] == cat

        small = with_required(P.minimise(tree, pred))
        _, msg2 = judge_slot_doc(small)
        R.add_violation(res, "%s|%s" % (cat, P.oneline(small)), "vocabulary drift: " + (msg2 or msg), {"tree": D.describe(small)}, {"label": label})
    R.add_sub(res, "slot x alternative x valid representative x position (S2)", n)
    R.add_sample(res, {"type": otype, "documents": n}, 1)


# ------------------------------------------------------------------ defaults
def run_defaults(res):
    import mappyfile

    bounds = {None}
    for t in V.object_types():
        for s in V.slots(t):
            for m in [s.meta] + [a.meta for a in s.alts]:
                for b in (m.get("minVersion"), m.get("maxVersion")):
                    if b is not None:
                        bounds |= {b, round(b + 0.1, 3)}
    for t in V.object_types():
        # each declared default is valid for its own keyword
        for s in V.slots(t):
            if not s.has_default:
                continue
            res["evals"] += 1
            if SE.valid(SE.lower_json(s.default), SE.resolve(t)["properties"][s.key]):
                R.add_outcome(res, "default_valid")
                res["states"].add(R.h64(("default", t, s.key)))
            else:
                R.add_outcome(res, "default_invalid")
                R.add_violation(res, "default|%s.%s=%r" % (t, s.key, s.default), "the declared default %r of %s.%s is not valid for its own keyword" % (s.default, t, s.key),
                                {"type": t, "key": s.key}, None)
        for ver in sorted(bounds, key=lambda x: (-1 if x is None else x)):
            res["evals"] += 1
            try:
                d = mappyfile.create(t, version=ver)
                # objects created earlier are the caller's: editing them must not change what create returns next
                first = D.typed(d)
                for k, v in list(d.items()):
                    if isinstance(v, list):
                        v.append(99)
                        if v:
                            v[0] = "edited"
                    elif isinstance(v, dict):
                        v["edited"] = 1
                again = mappyfile.create(t, version=ver)
                if D.typed(again) != first:
                    raise AssertionError("create() returns %r after an earlier created object was edited in place (first time %r)" % (
                        {k: v for k, v in again.items() if isinstance(v, (list, dict))}, "the declared defaults"))
                d = again
                out = impl.dumps(copy.deepcopy(d))
                d2 = impl.loads(out)
                msgs = impl.validate(d2, schema_name=t, version=ver)
                msgs = [m for m in msgs if "required" not in m["error"]]
                ok = not msgs and d2.get("__type__") == t
                why = "messages %r" % [(m["message"], m["error"][:50]) for m in msgs][:3]
            except Exception as e:
                ok, why = False, "%s: %s" % (impl.exc_name(e), str(e)[:100])
            if ok:
                R.add_outcome(res, "create_ok")
                res["states"].add(R.h64(("create", t, ver)))
            else:
                R.add_outcome(res, "create_fails")
                # minimal form: the keyword(s) named in the messages
                R.add_violation(res, "create|%s|%s" % (t, why_keys(why)), "create(%r, version=%s) does not print / re-load / validate: %s" % (t, ver, why),
                                {"type": t, "version": ver}, None)
    R.add_sub(res, "defaults: validity + create x versions", res["evals"])


def why_keys(why):
    import re

    ks = sorted(set(re.findall(r"Invalid value in (\w+)", why)))
    return ",".join(ks) if ks else why[:60]


def run_alts(res):
    """every value alternative a schema lists for a keyword admits at least one of its own representatives: a representative of the
    alternative must validate against the keyword's WHOLE schema (two overlapping alternatives under oneOf reject what each of them lists)"""
    for t in V.object_types():
        for s_ in V.slots(t):
            if s_.kind != "simple":
                continue
            for ai, a in enumerate(s_.alts):
                reps = V.reps_for(s_, a)
                if not reps:
                    continue
                res["evals"] += 1
                ok = [r for r in reps if SE.valid(SE.lower_json(r.value), s_.schema)]
                if ok:
                    R.add_outcome(res, "alternative_usable")
                    res["states"].add(R.h64((t, s_.key, ai)))
                else:
                    why = list(SE.errors(SE.lower_json(reps[0].value), s_.schema))[:2]
                    R.add_outcome(res, "alternative_unusable")
                    R.add_violation(res, "alternative|%s.%s alt=%d (%s)" % (t, s_.key, ai, a.kind), "no representative of this value alternative is accepted by the keyword's own schema: %r -> %s" % (
                        reps[0].value, why), {"type": t, "key": s_.key, "alt": ai}, None)
    R.add_sub(res, "value alternatives x own representatives against the whole keyword schema", res["evals"])
    return res


def run_unit(unit):
    res = R.new_result()
    k = unit[0]
    if k == "TYPES":
        run_types(res)
    elif k == "STORAGE":
        run_storage(res)
    elif k == "DEFAULTS":
        run_defaults(res)
    elif k == "ALTS":
        run_alts(res)
    else:
        run_slots(res, unit[1])
    return res


def describe(tier):
    return {"rule": "case = one element of the finite vocabulary product; state = distinct consistent element",
            "bounds": dict(V.summary(), positions=["first", "middle", "last"], containment_edges=sum(len(e) for e in V.containment().values()))}


def replay(case):
    if "alt" in case and "key" in case:
        r = run_alts(R.new_result())
        hits = [v for v in r["violations"] if v["case"] == case]
        return {"what": hits[0]["what"]} if hits else None
    if "nested" in case:
        tree = D.undescribe(case["tree"])
        for cname, path in nested_contexts(tree.type):
            try:
                nd = impl.loads(D.render(embed(path, tree))[0])
                inner = nd
                for parent, key, ct, how in path:
                    inner = inner[key]
                    if isinstance(inner, list):
                        inner = inner[0]
                if D.typed(inner) != D.typed(impl.loads(D.render(tree)[0])):
                    return {"nested": cname, "what": "differs"}
            except Exception as e:
                return {"nested": cname, "what": impl.exc_name(e)}
        return None
    if "tree" in case:
        cat, msg = judge_slot_doc(D.undescribe(case["tree"]))
        return {"category": cat, "message": msg} if cat else None
    return None
