"""C03 - the pretty-printed text says exactly what the dictionary says (read by an independent reader).

inputs   : every dictionary loads produces over S1-S4 / root lists / corpus, printed with default options
histories: all sequences of dict-API edits up to a depth bound from six initial dictionaries (no state merging)
"""
from __future__ import annotations

import copy
import itertools

from .. import runner as R
from .. import vocab as V
from .. import docmodel as D
from .. import spaces as S
from .. import docprop as P
from .. import corpus
from .. import impl
from .. import lexexpect as LX
from .. import reader as RD
from .c01 import strings_of, unknown_keywords

ID = "C03"
LEVEL_TEXT = ("bounded exhaustive exploration: (inputs) every dictionary produced over the document automaton and the corpus is printed "
              "by the real printer and read back by an independent lexer/structure reader; (histories) every sequence of dict-API edits "
              "up to depth 3/4 from six initial dictionaries; the reader's view must equal, item by item, the expected lexical rendering")
ASSUMPTIONS = [
    "expected lexical classes come from mcf/lexexpect.py (my table from the property text + raw schemas), reader is mcf/reader.py",
    "strings containing the output quote are outside the guarantee; keywords unknown to the schema are not judged",
    "edit values stay in the JSON value domain loads produces",
]


def units(tier):
    us = [("HIST", i, 3 if tier == "quick" else 4, j) for i in range(len(INITIAL)) for j in range(N_OPS_SHARD)]
    us += [("API", tier, i) for i in range(8)] + [("OPTS", i) for i in range(16)]
    us += [("S6", i) for i in range(16)]
    us += S.doc_units(["S1", "S1n", "S2", "S3", "S4", "S5", "ROOT"], tier, triples=False)
    return us


def judge_dict(d, quote='"'):
    """(category, message)"""
    try:
        exp_refuse = None
        LX_items = None
        # does the dictionary have a representation at all?
        try:
            for x in (d if isinstance(d, list) else [d]):
                LX.expected_items(x) if x.get("__type__") not in V.KV_BLOCKS else None
        except LX.Refuse as r:
            exp_refuse = str(r)
        try:
            text = impl.dumps(d, quote=quote)
        except Exception as e:
            if exp_refuse:
                return None, None
            return "dumps_exc:" + impl.exc_name(e), str(e)[:200]
        if exp_refuse:
            return "not_refused", exp_refuse + " | written: " + text[:200]
        try:
            msg = LX.compare(d, text)
        except RD.ReadError as e:
            return "unreadable", "%s | written: %s" % (e, text[:300])
        if msg:
            return "lexical", msg + " | written: " + text[:300]
        return None, None
    except LX.Refuse as r:  # pragma: no cover
        return "harness", str(r)


def check_tree(res, label, tree):
    text, _ = D.render(tree)
    try:
        d = impl.loads(text)
    except Exception:
        R.add_outcome(res, "unparsed")
        return
    if any('"' in s for s in strings_of(d)):
        R.add_outcome(res, "excluded_quote")
        return
    cat, msg = judge_dict(d)
    res["evals"] += 1
    if cat is None:
        R.add_outcome(res, "says_the_same")
        res["states"].add(R.h64(D.typed(d)))
        return
    R.add_outcome(res, cat)

    def pred(t):
        try:
            dd = impl.loads(D.render(t)[0])
        except Exception:
            return False
        return judge_dict(dd)[0] == cat

    small = P.minimise(tree, pred)
    _, msg2 = judge_dict(impl.loads(D.render(small)[0]))
    R.add_violation(res, "%s|%s" % (cat, P.oneline(small)), "dumps output does not say what the dictionary says: " + (msg2 or msg or ""),
                    {"tree": D.describe(small)}, {"label": label, "message": msg2 or msg})


# ------------------------------------------------------------------ histories
INITIAL = [
    'MAP NAME "m" LAYER NAME "l1" TYPE POINT END END',
    'LAYER NAME "l" TYPE POLYGON CLASS NAME "c" STYLE COLOR 1 2 3 END END END',
    'CLASS NAME "c" EXPRESSION ([a] > 1) END',
    'STYLE SYMBOL "circle" SIZE 5 END',
    'MAP WEB METADATA "k" "v" END END END',
    'LABEL TEXT "[name]" SIZE 8 END',
]


def _snip(text):
    return impl.loads(text)


SET_VALUES = {}
SET_VALUES_TMP = []


def op_table():
    """edit alphabet; each op: (name, function(d)).  Ops that do not apply raise and the history is skipped."""
    import mappyfile

    ops = []

    def add(name, f):
        ops.append((name, f))
        if name.startswith("set "):
            SET_VALUES[name] = SET_VALUES_TMP[-1]

    def setk(k, v):
        SET_VALUES_TMP.append(v)

        def f(d):
            d[k] = copy.deepcopy(v)
        return f

    add('set name="x y"', setk("name", "x y"))
    add("set name=7", setk("name", 7))
    add('set NAME="Up"', setk("NAME", "Up"))
    add('set status="on"', setk("status", "on"))
    add('set type="Polygon"', setk("type", "Polygon"))
    add('set size="[attr]"', setk("size", "[attr]"))
    add('set text="[attr]"', setk("text", "[attr]"))
    add('set expression="([b] = 2)"', setk("expression", "([b] = 2)"))
    add('set expression="/x/i"', setk("expression", "/x/i"))
    add('set expression="{a,b}"', setk("expression", "{a,b}"))
    add("set color=[9,8,7]", setk("color", [9, 8, 7]))
    add('set color="#ff00aa"', setk("color", "#ff00aa"))
    add("set antialias=True", setk("antialias", True))
    add("del name", lambda d: d.__delitem__("name"))
    add("del first non-hidden key", lambda d: d.__delitem__([k for k in d if not D.hidden(k)][0]))
    add("read group", lambda d: d["group"])
    add("read web", lambda d: d["web"])
    add("read layers", lambda d: d["layers"])
    add("read metadata", lambda d: d["metadata"])
    add('metadata[k2]="v2"', lambda d: d["metadata"].__setitem__("k2", "v2"))
    add('metadata[__note__]="hidden"', lambda d: d["metadata"].__setitem__("__note__", "hidden"))
    # hidden keys are any keys of the form __name__, not only __lowercaseletters__
    add('set __layer_id__=42', setk("__layer_id__", 42))
    add('set __ID2__="x"', setk("__ID2__", "x"))
    add('metadata[__Checked_By__]="qa"', lambda d: d["metadata"].__setitem__("__Checked_By__", "qa"))
    add("update metadata with __delete__ False", lambda d: mappyfile.update(d, {"metadata": {"__delete__": False, "k3": "v3"}}))
    add('config[MS_ERRORFILE]="stderr"', lambda d: d["config"].__setitem__("MS_ERRORFILE", "stderr"))
    add('legend[status]="ON"', lambda d: d["legend"].__setitem__("status", "ON"))
    add("append layer", lambda d: d["layers"].append(_snip("LAYER NAME 'n' TYPE LINE END")))
    add("insert class 0", lambda d: d["classes"].insert(0, _snip("CLASS NAME 'c0' END")))
    add("append style", lambda d: d["styles"].append(_snip("STYLE WIDTH 2 END")))
    add("remove last child", lambda d: [v for k, v in d.items() if k in V.object_list_keys() and isinstance(v, list) and v][0].pop())
    add("reverse children", lambda d: [v for k, v in d.items() if k in V.object_list_keys() and isinstance(v, list) and v][0].reverse())
    add("update name", lambda d: mappyfile.update(d, {"name": "upd"}))
    add("update layers[0]", lambda d: mappyfile.update(d, {"layers": [{"name": "u"}]}))
    add("update delete name", lambda d: mappyfile.update(d, {"name": "__delete__"}))
    add("assign web snippet", lambda d: d.__setitem__("web", _snip("WEB IMAGEPATH '/tmp/' END")))
    add("assign projection", lambda d: d.__setitem__("projection", ["init=epsg:4326"]))
    add("first child: set name", lambda d: [v for k, v in d.items() if k in V.object_list_keys() and isinstance(v, list) and v][0][0].__setitem__("name", "ch"))
    add("first child: read data", lambda d: [v for k, v in d.items() if k in V.object_list_keys() and isinstance(v, list) and v][0][0]["data"])
    return ops


N_OPS_SHARD = 39   # one unit per (initial dict, first op)


def applicable(initial_type, name):
    """ops whose keyword does not exist in the root type are not in that type's alphabet"""
    return True


def run_history(init_idx, hist, ops):
    d = impl.loads(INITIAL[init_idx])
    for oi in hist:
        try:
            ops[oi][1](d)
        except Exception:
            return "inapplicable", None, d
    cat, msg = judge_dict(d)
    return cat, msg, d


def run_hist_unit(res, init_idx, depth, first):
    ops = op_table()
    assert len(ops) == N_OPS_SHARD, len(ops)
    root_type = impl.loads(INITIAL[init_idx])["__type__"]
    # keyword edits only on keywords the root type has (others would be unknown keywords: outside the guarantee)
    allowed = []
    for i, (name, _) in enumerate(ops):
        if name.startswith("set ") or name.startswith("read "):
            key = name.split()[1].split("=")[0].lower()
            sl = V.slot(root_type, key)
            if sl is None:
                continue
            if name.startswith("set "):
                # values stay inside what the slot admits (wrong-case enum words and numbers for
                # string slots included); anything else has no lexical class to be judged against
                v = SET_VALUES[name]
                if not (V.valid_value(sl, v) or (isinstance(v, (int, float)) and any(a.kind == "string" for a in sl.alts))):
                    continue
        if name.startswith("metadata") and V.slot(root_type, "metadata") is None:
            continue
        if name.startswith("config") and V.slot(root_type, "config") is None:
            continue
        if name.startswith("legend") and V.slot(root_type, "legend") is None:
            continue
        if name.startswith("assign web") and V.slot(root_type, "web") is None:
            continue
        if name.startswith("assign projection") and V.slot(root_type, "projection") is None:
            continue
        allowed.append(i)
    if first not in allowed:
        return
    for L in range(1, depth + 1):
        for tail in itertools.product(allowed, repeat=L - 1):
            hist = (first,) + tail
            cat, msg, d = run_history(init_idx, hist, ops)
            res["evals"] += 1
            if cat == "inapplicable":
                R.add_outcome(res, "history_inapplicable")
                continue
            if cat is None:
                R.add_outcome(res, "says_the_same_or_refused")
                res["states"].add(R.h64(D.typed(d)))
                continue
            R.add_outcome(res, cat)
            # minimise: drop operations
            h = list(hist)
            changed = True
            while changed:
                changed = False
                for i in range(len(h)):
                    c = h[:i] + h[i + 1:]
                    if c and run_history(init_idx, c, ops)[0] == cat:
                        h, changed = c, True
                        break
            _, msg2, _ = run_history(init_idx, h, ops)
            names = [ops[i][0] for i in h]
            R.add_violation(res, "%s|init=%d|%s" % (cat, init_idx, ";".join(names)),
                            "after a history of dict edits dumps does not say what the dictionary says: " + (msg2 or msg or ""),
                            {"initial": INITIAL[init_idx], "ops": names}, {"message": msg2 or msg})
    R.add_sub(res, "histories depth<=%d" % depth, res["evals"])
    if first == allowed[0]:
        R.add_sample(res, {"initial": INITIAL[init_idx], "history": [ops[i][0] for i in hist]}, 1)


def run_unit(unit):
    res = R.new_result()
    if unit[0] == "HIST":
        run_hist_unit(res, unit[1], unit[2], unit[3])
        return res
    if unit[0] == "API":
        return run_api(res, unit[1], unit[2])
    if unit[0] == "OPTS":
        return run_opts(res, unit[1])
    if unit[0] == "S6":
        for f in corpus.files()[unit[1]::16]:
            text = corpus.read(f)
            rel = f.replace(R.REPO + "/", "")
            if text is None:
                continue
            try:
                d = impl.loads(text)
            except Exception:
                R.add_outcome(res, "corpus_unparsed")
                continue
            if any('"' in s for s in strings_of(d)):
                R.add_outcome(res, "excluded_quote")
                continue
            cat, msg = judge_dict(d)
            res["evals"] += 1
            if cat is None:
                R.add_outcome(res, "says_the_same")
                res["states"].add(R.h64(rel))
            elif unknown_keywords(d):
                R.add_skip(res, "corpus file with keywords unknown to the schema")
            else:
                R.add_outcome(res, cat)
                R.add_violation(res, "%s|file=%s" % (cat, rel), "corpus file: " + (msg or ""), {"file": rel}, {"message": msg})
        R.add_sub(res, "S6 corpus", res["evals"])
        return res
    n = 0
    for label, tree in S.iter_unit(unit):
        check_tree(res, label, tree)
        n += 1
        if n == 1:
            R.add_sample(res, {"label": label, "text": D.render(tree)[0]}, 1)
    R.add_sub(res, unit[0], res["evals"])
    return res


def run_opts(res, shard):
    """the same reading under the corner formatter option sets (line-break newlinechar): what the text says may not depend on the options"""
    from .. import optsweep as O

    docs = [(l, t) for l, t in O.documents("quick") if l.startswith(("RICH ", "S1", "S4", "NUM", "EXPR", "AMBIG"))]
    sets = [o for o in O.corner_sets() if "\n" in o["newlinechar"]]
    for label, text in docs[shard::16]:
        try:
            d0 = impl.loads(text)
        except Exception:
            continue
        strs = list(strings_of(d0))
        for o in sets:
            if any(o["quote"] in s_ for s_ in strs) and not label.startswith("EXPR"):
                continue
            d = copy.deepcopy(d0)
            res["evals"] += 1
            try:
                out = impl.dumps(d, **o)
                msg = LX.compare(d, out, o["newlinechar"])
            except RD.ReadError as e:
                msg = "output unreadable: %s" % e
            except LX.Refuse:
                continue
            except Exception as e:
                msg = "dumps raises %s" % impl.exc_name(e)
            if msg is None:
                R.add_outcome(res, "says_the_same")
                res["states"].add(R.h64(out))
            else:
                R.add_outcome(res, "lexical")
                from .. import optsweep as O2

                R.add_violation(res, "lexical_opts|%s|%s" % (msg.split(":")[0][:60], label), "under options %s the text does not say what the dictionary says: %s" % (O2.oname(o), msg),
                                {"text": text, "options": o}, None)
    R.add_sub(res, "documents x corner option sets read back", res["evals"])
    return res


def run_api(res, tier, shard):
    """dumps / dump / save must produce the characters the reused PrettyPrinter produces"""
    import io
    import os
    import tempfile

    import mappyfile

    docs = list(S.s4()) + list(S.root_lists())
    tmp = tempfile.mkdtemp(prefix="mcf_c03_")
    try:
        for label, tree in docs[shard::8]:
            try:
                d = impl.loads(D.render(tree)[0])
                ref = impl.dumps(d)
            except Exception:
                continue
            a = mappyfile.dumps(d)
            buf = io.StringIO()
            mappyfile.dump(d, buf)
            fn = os.path.join(tmp, "o.map")
            mappyfile.save(d, fn)
            with open(fn, encoding="utf-8", newline="") as f:
                c = f.read()
            res["evals"] += 1
            if not (a == ref == buf.getvalue() == c):
                R.add_violation(res, "api|" + P.oneline(tree), "dumps/dump/save disagree with PrettyPrinter.pprint", {"tree": D.describe(tree), "api": True}, None)
            else:
                R.add_outcome(res, "api_agrees")
    finally:
        import shutil

        shutil.rmtree(tmp, ignore_errors=True)
    R.add_sub(res, "API binding", res["evals"])
    return res


def describe(tier):
    return {
        "rule": "inputs: one case per document (dictionary = loads(text)); histories: one case per operation sequence on a fresh dictionary, no merging; "
                "a state is a distinct resulting dictionary",
        "bounds": dict(V.summary(), history_depth=3 if tier == "quick" else 4, edit_operations=N_OPS_SHARD, initial_dictionaries=len(INITIAL),
                       corpus_files=len(corpus.files())),
    }


def replay(case):
    import mappyfile

    if "options" in case:
        d = mappyfile.loads(case["text"], expand_includes=False)
        out = mappyfile.dumps(d, **case["options"])
        msg = LX.compare(d, out, case["options"]["newlinechar"])
        return {"diff": msg, "written": out} if msg else None
    if "ops" in case:
        ops = dict(op_table())
        d = mappyfile.loads(case["initial"])
        for n in case["ops"]:
            ops[n](d)
    elif "file" in case:
        d = mappyfile.loads(corpus.read(R.REPO + "/" + case["file"]), expand_includes=False)
    else:
        d = mappyfile.loads(D.render(D.undescribe(case["tree"]))[0])
    try:
        LX.expected_items(d) if not isinstance(d, list) else None
        refuse = None
    except LX.Refuse as r:
        refuse = str(r)
    try:
        text = mappyfile.dumps(d)
    except Exception as e:
        return None if refuse else {"exception": repr(e)}
    if refuse:
        return {"not_refused": refuse, "written": text}
    msg = LX.compare(d, text)
    return {"diff": msg, "written": text} if msg else None
