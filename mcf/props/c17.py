"""C17 - CaseInsensitiveOrderedDict behaves as a case-insensitive, insertion-ordered dict.

Explicit-state exploration of the REAL class against a boring reference model.

 * closure mode: BFS over all reachable canonical states (3 folded keys incl. one object-list key,
   small value alphabet, with and without default factory).  A state is the operation history that
   reaches it; the object is rebuilt from a fresh instance for every transition (copy/deepcopy/pickle
   are operations under test, so they are not used to clone states).  Every operation of the alphabet
   is applied in every reachable state; result, exception class, full item list, class, factory and
   instance __dict__ are compared with the reference after every transition.
 * unmerged mode: every operation sequence up to depth d, no state merging (a mutant's hidden state
   would not be part of my canonical form, so merging could hide it).
"""
from __future__ import annotations

import collections
import copy
import itertools
import pickle

from .. import runner as R
from .. import impl
from ..vocabkeys import object_list_keys

ID = "C17"
LEVEL_TEXT = ("explicit-state model checking of the real CaseInsensitiveOrderedDict against a reference "
              "OrderedDict model: full closure of the reachable state space over 3 folded keys x value alphabet "
              "(every operation applied in every reachable state), plus all unmerged operation sequences to a depth bound")
ASSUMPTIONS = [
    "string keys only (the property speaks of string keys); values from a 4-element alphabet plus auto-created ones",
    "reference model: collections.OrderedDict keyed by lower-cased keys + explicit default-factory rule",
    "object-list keys are read from the parent schemas (array-of-object slots), not from tokens.py",
]

KEYS = ["a", "A", "b", "B", "layers", "Layers"]
VALS = [1, "x", [1], {"k": 1}, None, ["s", {"k": 1}, [1, 2]]]
OLK = None


def _olk():
    global OLK
    if OLK is None:
        OLK = object_list_keys()
    return OLK


# ---------------------------------------------------------------- operations
def alphabet(full=True):
    ops = []
    for k in KEYS:
        ops.append(("get[]", k))
    for k in KEYS:
        for vi in range(len(VALS)):
            if full or vi < 2:
                ops.append(("set[]", k, vi))
    for k in KEYS:
        ops.append(("del[]", k))
        ops.append(("in", k))
        ops.append(("has_key", k))
        ops.append(("get", k))
        ops.append(("get_d", k))
        ops.append(("pop", k))
        ops.append(("pop_d", k))
        ops.append(("setdefault", k))
        ops.append(("setdefault_v", k, 2))
    ops += [
        ("update_dict", (("A", 0), ("b", 1))),
        ("update_dict", (("Layers", 2),)),
        ("update_pairs", (("B", 1), ("a", 3))),
        ("update_kw", (("A", 1),)),
        ("update_collide", (("a", 0), ("A", 1), ("b", 2))),
        ("update_mixed", (("B", 0),), (("a", 1),)),
        ("update_self_type", (("A", 3),)),
        ("update_none",),
        ("update_userdict", (("A", 0), ("b", 1))),
        ("update_chainmap", (("B", 2), ("a", 3))),
        ("copy",),
        ("copy_method",),
        ("deepcopy",),
        ("pickle",),
        ("reconstruct_dict",),
        ("reconstruct_pairs",),
        ("reconstruct_kwargs",),
        ("keys",),
        ("eq",),
    ]
    if not full:
        # reduced alphabet for the deepest unmerged tier: one spelling per folded key where the
        # other spelling is covered at smaller depth
        keep = []
        for op in ops:
            if op[0] in ("has_key", "get_d", "pop_d", "in") and op[1] in ("a", "B", "layers"):
                continue
            if op[0] in ("update_mixed", "update_self_type", "update_none", "copy_method", "reconstruct_pairs", "keys", "eq"):
                continue
            keep.append(op)
        ops = keep
    return ops


# a second key alphabet: two folded keys that str.lower() keeps apart and str.casefold() merges
KEYMAP2 = {"a": "ma\u00dfe", "A": "MA\u00dfE", "b": "masse", "B": "MASSE"}


def translate(ops, ks):
    """the operation alphabet over the second key alphabet (ks=1)"""
    if not ks:
        return ops

    def tr(x):
        if isinstance(x, str):
            return KEYMAP2.get(x, x)
        if isinstance(x, tuple):
            return tuple(tr(y) for y in x)
        return x

    return [(op[0],) + tuple(tr(x) for x in op[1:]) for op in ops]


def respell(k, how):
    """another spelling of the same lower-cased key (str.upper() of a sharp s leaves the lower() class: keep such keys as they are)"""
    alt = getattr(k, how)()
    return alt if alt.lower() == k.lower() else k


def val(vi):
    return copy.deepcopy(VALS[vi])


class Ref:
    """reference: ordered dict keyed by lower-cased keys; explicit default rule"""

    def __init__(self, factory):
        self.od = collections.OrderedDict()
        self.factory = factory

    def clone(self, deep):
        r = Ref(self.factory)
        r.od = copy.deepcopy(self.od) if deep else collections.OrderedDict(self.od)
        return r


class Boom(Exception):
    pass


def canon(v):
    if isinstance(v, bool):
        return ("b", v)
    if isinstance(v, dict):
        return ("D", tuple((k, canon(x)) for k, x in v.items()))
    if isinstance(v, (list, tuple)):
        return ("L" if isinstance(v, list) else "T", tuple(canon(x) for x in v))
    return (type(v).__name__, v)


def mutable_ids(x, acc=None):
    if acc is None:
        acc = set()
    if isinstance(x, dict):
        acc.add(id(x))
        for v in x.values():
            mutable_ids(v, acc)
    elif isinstance(x, (list, set)):
        acc.add(id(x))
        for v in x:
            mutable_ids(v, acc)
    elif isinstance(x, tuple):
        for v in x:
            mutable_ids(v, acc)
    return acc


def impl_state(d, CI):
    return (
        type(d) is CI,
        d.default_factory is CI if d.default_factory is not None else None,
        tuple((k, canon(v)) for k, v in d.items()),
        tuple(sorted(k for k in d.__dict__ if k != "default_factory")),
        len(d),
    )


def ref_state(r):
    return (
        True,
        True if r.factory else None,
        tuple((k, canon(v)) for k, v in r.od.items()),
        (),
        len(r.od),
    )


def apply_impl(d, op, CI):
    """returns (result canon, new object)"""
    name = op[0]
    try:
        if name == "get[]":
            return canon(d[op[1]]), d
        if name == "set[]":
            d[op[1]] = val(op[2])
            return None, d
        if name == "del[]":
            del d[op[1]]
            return None, d
        if name == "in":
            return canon(op[1] in d), d
        if name == "has_key":
            return canon(d.has_key(op[1])), d
        if name == "get":
            return canon(d.get(op[1])), d
        if name == "get_d":
            return canon(d.get(op[1], "dflt")), d
        if name == "pop":
            return canon(d.pop(op[1])), d
        if name == "pop_d":
            return canon(d.pop(op[1], "dflt")), d
        if name == "setdefault":
            return canon(d.setdefault(op[1])), d
        if name == "setdefault_v":
            return canon(d.setdefault(op[1], val(op[2]))), d
        if name in ("update_dict", "update_collide"):
            d.update(collections.OrderedDict((k, val(v)) for k, v in op[1]))
            return None, d
        if name == "update_self_type":
            d.update(CI(None, [(k, val(v)) for k, v in op[1]]))
            return None, d
        if name == "update_pairs":
            d.update([(k, val(v)) for k, v in op[1]])
            return None, d
        if name == "update_kw":
            d.update(**{k: val(v) for k, v in op[1]})
            return None, d
        if name == "update_mixed":
            d.update({k: val(v) for k, v in op[1]}, **{k: val(v) for k, v in op[2]})
            return None, d
        if name == "update_none":
            d.update()
            return None, d
        if name == "update_userdict":
            d.update(collections.UserDict((k, val(v)) for k, v in op[1]))
            return None, d
        if name == "update_chainmap":
            d.update(collections.ChainMap(dict((k, val(v)) for k, v in op[1])))
            return None, d
        if name in ("copy", "copy_method", "deepcopy", "pickle"):
            if name == "copy":
                c = copy.copy(d)
            elif name == "copy_method":
                c = d.copy()
            elif name == "deepcopy":
                c = copy.deepcopy(d)
            else:
                c = pickle.loads(pickle.dumps(d))
            facts = [c == d, d == c, type(c) is type(d), c is not d, c.default_factory is d.default_factory,
                     list(c.items()) == list(d.items())]
            before = impl_state(d, CI)
            # independence: top level for all, nested for deepcopy / pickle
            c["zzz"] = 1
            facts.append("zzz" not in d)
            del c["zzz"]
            if name in ("deepcopy", "pickle"):
                # no mutable object reachable from the copy may be reachable from the original (at any depth)
                facts.append(not (mutable_ids(d) & mutable_ids(c)))
            else:
                # shallow copy shares values
                facts.append(all(c[k] is d[k] for k in list(d.keys())))
            return canon(facts), c
        if name == "reconstruct_dict":
            c = CI(d.default_factory, collections.OrderedDict((respell(k, 'upper'), v) for k, v in d.items()))
            return None, c
        if name == "reconstruct_pairs":
            c = CI(d.default_factory, [(respell(k, 'title'), v) for k, v in d.items()])
            return None, c
        if name == "reconstruct_kwargs":
            c = CI(d.default_factory, **{respell(k, 'upper'): v for k, v in d.items()})
            return None, c
        if name == "keys":
            return canon([list(d.keys()), list(d), [v for v in d.values()] == [v for _, v in d.items()], list(reversed(d))]), d
        if name == "eq":
            plain = {k: v for k, v in d.items()}
            return canon([d == plain, plain == d, d != plain]), d
    except KeyError:
        return ("EXC", "KeyError"), d
    raise Boom(op)


def apply_ref(r, op):
    name = op[0]
    od = r.od
    lk = op[1].lower() if len(op) > 1 and isinstance(op[1], str) else None
    if name == "get[]":
        if lk in od:
            return canon(od[lk]), r
        if not r.factory:
            return ("EXC", "KeyError"), r
        od[lk] = [] if lk in _olk() else {}
        return canon(od[lk]), r
    if name == "set[]":
        od[lk] = val(op[2])
        return None, r
    if name == "del[]":
        if lk not in od:
            return ("EXC", "KeyError"), r
        del od[lk]
        return None, r
    if name in ("in", "has_key"):
        return canon(lk in od), r
    if name == "get":
        return canon(od.get(lk)), r
    if name == "get_d":
        return canon(od.get(lk, "dflt")), r
    if name == "pop":
        if lk not in od:
            return ("EXC", "KeyError"), r
        return canon(od.pop(lk)), r
    if name == "pop_d":
        return canon(od.pop(lk, "dflt")), r
    if name == "setdefault":
        return canon(od.setdefault(lk)), r
    if name == "setdefault_v":
        return canon(od.setdefault(lk, val(op[2]))), r
    if name in ("update_dict", "update_collide", "update_pairs", "update_kw", "update_self_type", "update_userdict", "update_chainmap"):
        for k, v in op[1]:
            od[k.lower()] = val(v)
        return None, r
    if name == "update_mixed":
        for k, v in op[1] + op[2]:
            od[k.lower()] = val(v)
        return None, r
    if name == "update_none":
        return None, r
    if name in ("copy", "copy_method"):
        return canon([True] * 8), r.clone(False)
    if name in ("deepcopy", "pickle"):
        return canon([True] * 8), r.clone(True)
    if name in ("reconstruct_dict", "reconstruct_pairs", "reconstruct_kwargs"):
        return None, r.clone(False)
    if name == "keys":
        ks = list(od.keys())
        return canon([ks, ks, True, list(reversed(ks))]), r
    if name == "eq":
        return canon([True, True, False]), r
    raise Boom(op)


def fresh(factory):
    from mappyfile.ordereddict import CaseInsensitiveOrderedDict as CI

    return (CI(CI) if factory else CI()), CI


def replay_history(factory, hist):
    """returns (impl obj, ref obj, first divergence or None)"""
    d, CI = fresh(factory)
    r = Ref(factory)
    for i, op in enumerate(hist):
        try:
            ri, d = apply_impl(d, op, CI)
            ei = None
        except Boom:
            raise
        except Exception as e:  # any exception other than KeyError is a divergence
            ri, ei = ("EXC", type(e).__name__), e
        rr, r = apply_ref(r, op)
        si, sr = impl_state(d, CI), ref_state(r)
        if ri != rr or si != sr:
            return d, r, {"step": i, "op": op, "impl_result": ri, "ref_result": rr, "impl_state": si, "ref_state": sr}
    return d, r, None


def sig_of(factory, hist, div):
    return "factory=%s ops=%s" % (factory, ";".join(":".join(map(str, o)) for o in hist[: div["step"] + 1]))


def minimise(factory, hist, div):
    hist = list(hist[: div["step"] + 1])
    changed = True
    while changed:
        changed = False
        for i in range(len(hist) - 1):
            cand = hist[:i] + hist[i + 1:]
            _, _, dv = replay_history(factory, cand)
            if dv is not None and dv["step"] == len(cand) - 1:
                hist, div, changed = cand, dv, True
                break
    return hist, div


def record(res, factory, hist, div):
    hist, div = minimise(factory, hist, div)
    R.add_violation(
        res, sig_of(factory, hist, div),
        "dict operation diverges from reference ordered-dict model",
        {"factory": factory, "history": [list(o) for o in hist]},
        {k: repr(v) for k, v in div.items()},
    )


# ---------------------------------------------------------------- exploration
def units(tier):
    us = [("closure", f) for f in (True, False)] + [("closure", f, 1) for f in (True, False)] + [("loaded",)]
    depth = 3
    ops = alphabet(True)
    # unmerged: partition by first op
    for f in (True, False):
        for i in range(len(ops)):
            us.append(("unmerged", f, depth, True, i))
    if tier == "thorough":
        ops4 = alphabet(False)
        for f in (True, False):
            for i in range(len(ops4)):
                us.append(("unmerged", f, 4, False, i))
    return us


def untuple(op):
    return tuple(tuple(tuple(y) if isinstance(y, list) else y for y in x) if isinstance(x, list) else x for x in op)


LOADED_DOCS = [
    'MAP NAME "m" CONFIG "MS_ERRORFILE" "x" WEB METADATA "WMS_Title" "t" "k2" "v" END VALIDATION "Key" "^a$" END END LAYER NAME "l" TYPE POINT '
    'METADATA "A" "1" END VALIDATION "B" "2" END CONNECTIONOPTIONS "Opt" "3" END SCALETOKEN NAME "%p%" VALUES "0" "a" "100" "b" END END '
    'CLASS NAME "c" STYLE COLOR 1 2 3 END LABEL SIZE 8 END END FEATURE POINTS 1 1 2 2 END POINTS 3 3 4 4 END END END '
    'OUTPUTFORMAT NAME "png" DRIVER "AGG/PNG" FORMATOPTION "A=1" END END',
    'METADATA "Mixed_Key" "v" "lower" "w" END', 'VALIDATION "K" "v" END', 'CONNECTIONOPTIONS "K" "v" END',
    'LAYER NAME "l" TYPE POINT METADATA "wms_TITLE" "x" END END', 'SYMBOL NAME "s" POINTS 1 1 END END',
]


def every_dict(d, path="/"):
    if isinstance(d, dict):
        yield path, d
        for k, v in list(d.items()):
            if not (isinstance(k, str) and k.startswith("__") and k != "__type__"):
                yield from every_dict(v, path + str(k) + "/")
    elif isinstance(d, list):
        for i, v in enumerate(d):
            yield from every_dict(v, path + "%d/" % i)


def run_loaded(res):
    """every dictionary (at any depth) of what loads / open return behaves as the class the closure explored: same class, and an
    operation battery with respelled keys against the reference model"""
    import mappyfile
    from mappyfile.ordereddict import CaseInsensitiveOrderedDict as CI

    n = 0
    for text in LOADED_DOCS:
        for flags in ({}, {"include_position": True}, {"include_comments": True, "include_position": True}):
            roots = impl.loads(text, **flags)
            for path, _ in list(every_dict(roots)):
                # a fresh load per nested dictionary and operation: the battery edits it
                for opname in ("in", "get", "getitem", "pop", "setdefault", "del", "set", "update", "keys_lower", "missing_list"):
                    top = impl.loads(text, **flags)
                    d = dict(every_dict(top))[path]
                    n += 1
                    res["evals"] += 1
                    ks = [k for k in d.keys() if isinstance(k, str) and not k.startswith("__")]
                    ref = collections.OrderedDict((k.lower(), v) for k, v in d.items())
                    bad = None
                    if type(d) is not CI:
                        bad = "is a %s, not a CaseInsensitiveOrderedDict" % type(d).__name__
                    elif ks:
                        k = ks[0]
                        alt = respell(k, "upper") if respell(k, "upper") != k else respell(k, "title")
                        try:
                            if opname == "in":
                                bad = None if (alt in d) else "%r in d is False" % alt
                            elif opname == "get":
                                bad = None if d.get(alt, "MISSING") == ref[k] else "get(%r) misses" % alt
                            elif opname == "getitem":
                                bad = None if d[alt] == ref[k] else "d[%r] differs" % alt
                            elif opname == "pop":
                                v = d.pop(alt, "MISSING")
                                bad = None if (v == ref[k] and k not in d) else "pop(%r) -> %r" % (alt, v)
                            elif opname == "setdefault":
                                v = d.setdefault(alt, "NEW")
                                bad = None if (v == ref[k] and len(d) == len(ref)) else "setdefault(%r) -> %r, %d keys (was %d)" % (alt, v, len(d), len(ref))
                            elif opname == "del":
                                del d[alt]
                                bad = None if len(d) == len(ref) - 1 else "del d[%r] left %d keys" % (alt, len(d))
                            elif opname == "set":
                                d[alt] = "NEW"
                                bad = None if (len(d) == len(ref) and d[k] == "NEW" and list(d.keys()) == list(ref.keys())) else "d[%r] = v gives keys %r" % (alt, list(d.keys()))
                            elif opname == "update":
                                d.update({alt: "NEW"})
                                bad = None if (len(d) == len(ref) and d[k] == "NEW") else "update({%r: v}) gives keys %r" % (alt, list(d.keys()))
                            elif opname == "keys_lower":
                                bad = None if all(x == x.lower() for x in ks) else "keys not lower case: %r" % ks
                        except Exception as e:
                            bad = "%s raised %s" % (opname, type(e).__name__)
                    if bad is None and opname == "missing_list" and type(d) is CI:
                        # any dictionary of the result (CONFIG and key-value blocks included) creates the list on first read
                        key = {"map": "layers", "layer": "classes", "class": "styles"}.get(d.get("__type__"), "styles")
                        if key not in d:
                            try:
                                v = d[key.upper()]
                                bad = None if (v == [] and d[key] is v) else "reading missing %s gives %r" % (key, v)
                            except Exception as e:
                                bad = "reading the missing object-list key %s raised %s" % (key, type(e).__name__)
                    if bad:
                        R.add_outcome(res, "divergence")
                        R.add_violation(res, "loaded|%s|%s|%s" % (opname, path, text[:40]), "a dictionary inside the result of loads does not behave as a case-insensitive ordered dict: at %s %s" % (path, bad),
                                        {"text": text, "flags": flags, "path": path, "op": opname}, None)
                    else:
                        R.add_outcome(res, "agree")
                        res["states"].add(R.h64(("loaded", text, path, opname, tuple(sorted(flags)))))
    R.add_sub(res, "dictionaries returned by loads: every nested dictionary x operation battery with respelled keys", n)
    return res


def run_unit(unit):
    res = R.new_result()
    if unit[0] == "loaded":
        return run_loaded(res)
    if unit[0] == "closure":
        factory = unit[1]
        ops = translate(alphabet(True), unit[2] if len(unit) > 2 else 0)
        d, CI = fresh(factory)
        seen = {impl_state(d, CI): ()}
        frontier = collections.deque([()])
        maxdepth = 0
        while frontier:
            hist = frontier.popleft()
            maxdepth = max(maxdepth, len(hist))
            for op in ops:
                h2 = hist + (op,)
                d, r, div = replay_history(factory, h2)
                res["evals"] += 1
                if div is not None:
                    record(res, factory, h2, div)
                    R.add_outcome(res, "divergence")
                    continue
                R.add_outcome(res, "agree")
                st = impl_state(d, CI)
                if st not in seen:
                    seen[st] = h2
                    frontier.append(h2)
        for st in seen:
            res["states"].add(R.h64(("closure", factory, st)))
        R.add_sub(res, "closure factory=%s: states=%d max_depth=%d" % (factory, len(seen), maxdepth), res["evals"])
        R.add_sample(res, {"mode": "closure", "factory": factory, "deepest_history": [list(o) for o in max(seen.values(), key=len)]})
        return res
    _, factory, depth, full, first = unit
    ops = alphabet(full)
    n = 0
    for tail in itertools.product(ops, repeat=depth - 1):
        h = (ops[first],) + tail
        d, r, div = replay_history(factory, h)
        n += 1
        if div is not None:
            record(res, factory, h, div)
            R.add_outcome(res, "divergence")
        else:
            R.add_outcome(res, "agree")
            res["states"].add(R.h64(impl_state(d, fresh(factory)[1])))
    res["evals"] += n
    R.add_sub(res, "unmerged depth=%d alphabet=%d" % (depth, len(ops)), n)
    if first == 0:
        R.add_sample(res, {"mode": "unmerged", "factory": factory, "history": [list(o) for o in h]})
    return res


def describe(tier):
    return {
        "rule": "state = operation history on a fresh real dict; canonical state = (class, factory, ordered items with deep value forms, instance attrs); "
                "closure applies every operation of the alphabet in every reachable state; unmerged mode runs every sequence of the given depth",
        "bounds": {
            "key_spellings": KEYS, "second_key_alphabet (closure)": sorted(KEYMAP2.values()) + ["layers", "Layers"], "values": [repr(v) for v in VALS],
            "operations_full": len(alphabet(True)), "operations_reduced": len(alphabet(False)),
            "unmerged_depth": 3 if tier == "quick" else "3 (full alphabet) and 4 (reduced alphabet)",
            "closure": "complete (until no new canonical state)",
        },
    }


def replay(case):
    if "path" in case:
        res = run_loaded(R.new_result())
        hits = [v for v in res["violations"] if v["case"].get("text") == case["text"] and v["case"].get("path") == case["path"] and v["case"].get("op") == case["op"]]
        return {"what": hits[0]["what"]} if hits else None
    hist = [untuple(o) for o in case["history"]]
    _, _, div = replay_history(case["factory"], tuple(hist))
    if div:
        return {k: repr(v) for k, v in div.items()}
    return None
