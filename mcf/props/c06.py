"""C06 - formatting options never change content (full cross product of the 720 admissible option sets)."""
from __future__ import annotations

import copy

from .. import runner as R
from .. import docmodel as D
from .. import optsweep as O
from .. import impl
from .c01 import strings_of

ID = "C06"
LEVEL_TEXT = ("exhaustive enumeration of the full option cross product (720 admissible sets) x a bounded document set on the real "
              "printer+parser: loads(dumps(d, options)) must equal loads(dumps(d)); separate_complex_types judged modulo the permitted reorder only")
ASSUMPTIONS = ["documents whose strings contain the chosen quote are skipped for that quote (documented limitation)",
               "block-valued = dict values, lists of dicts and PROJECTION/POINTS/PATTERN; everything else is a simple key"]
NSHARD = 64


def units(tier):
    return [("DOCS", tier, i) for i in range(NSHARD)] + [("API", tier)]


BLOCK_KEYS = ("projection", "points", "pattern")


def is_block_value(k, v):
    if k == "config":
        return False        # CONFIG is written as keyword lines, not as a block
    if isinstance(v, dict):
        return True
    if isinstance(v, list) and v and all(isinstance(x, dict) for x in v):
        return True
    return k in BLOCK_KEYS


def reorder_diff(a, b, path=""):
    """None if b equals a up to moving block-valued keys behind the simple keys (relative order kept in each group)"""
    if isinstance(a, dict):
        if not isinstance(b, dict):
            return "%s: not an object any more" % path
        ka, kb = list(a.keys()), list(b.keys())
        if sorted(map(str, ka)) != sorted(map(str, kb)):
            return "%s: keys %s became %s" % (path or "/", ka, kb)
        sa = [k for k in ka if not is_block_value(k, a[k])]
        sb = [k for k in kb if not is_block_value(k, b[k])]
        ca = [k for k in ka if is_block_value(k, a[k])]
        cb = [k for k in kb if is_block_value(k, b[k])]
        if sa != sb:
            return "%s: order of simple keys %s became %s" % (path or "/", sa, sb)
        if ca != cb:
            return "%s: order of block keys %s became %s" % (path or "/", ca, cb)
        if kb != sb + cb and kb != ka:
            return "%s: keys neither in original order nor simple-then-blocks: %s" % (path or "/", kb)
        for k in ka:
            r = reorder_diff(a[k], b[k], path + "/" + str(k))
            if r:
                return r
        return None
    if isinstance(a, (list, tuple)):
        if not isinstance(b, (list, tuple)) or len(a) != len(b):
            return "%s: list changed" % path
        for i, (x, y) in enumerate(zip(a, b)):
            r = reorder_diff(x, y, "%s[%d]" % (path, i))
            if r:
                return r
        return None
    if type(a) is not type(b) or a != b:
        return "%s: %s became %s" % (path, D.short(a), D.short(b))
    return None


def check_doc(res, label, text, optsets):
    d = O.load_or_none(text, label)
    if d is None:
        R.add_outcome(res, "unparsed")
        return
    strs = list(strings_of(d))
    try:
        base = impl.loads(impl.dumps(d))
    except Exception:
        R.add_outcome(res, "default_format_fails(C01)")
        return
    tb = D.typed(D.strip_hidden(base))
    for o in optsets:
        if label.startswith("RICHC") and "\n" not in o["newlinechar"]:
            continue      # a space as newlinechar is only admissible when no comments are emitted
        if any(o["quote"] in s for s in strs) or any('"' in s for s in strs):
            R.add_outcome(res, "excluded_quote")
            continue
        dc = copy.deepcopy(d) if o["separate_complex_types"] else d
        res["evals"] += 1
        try:
            t = impl.dumps(dc, **o)
            got = impl.loads(t)
        except Exception as e:
            R.add_outcome(res, "exc")
            R.add_violation(res, "exc:%s|%s|%s" % (impl.exc_name(e), O.oname(o), label), "formatted text cannot be produced / re-loaded: %s" % str(e)[:200],
                            {"text": text, "options": o}, None)
            continue
        if o["separate_complex_types"]:
            msg = reorder_diff(D.strip_hidden(base), D.strip_hidden(got))
        else:
            msg = None if D.typed(D.strip_hidden(got)) == tb else (D.strict_diff(D.strip_hidden(base), D.strip_hidden(got)) or "dictionaries differ")
        if msg:
            R.add_outcome(res, "content_changed")
            R.add_violation(res, "changed|%s|%s" % (sig_opts(o, d, text), label), "options change content: " + msg, {"text": text, "options": o},
                            {"message": msg, "formatted": t[:400]})
        else:
            R.add_outcome(res, "same_content")
            res["states"].add(R.h64(t))


def sig_opts(o, d, text):
    """reduce the option set to the options that matter (those differing from the default that are needed)"""
    default = dict(indent=4, spacer=" ", quote='"', newlinechar="\n", end_comment=False, align_values=False, separate_complex_types=False)
    need = {}
    cur = dict(o)
    for k in sorted(o):
        if cur[k] == default[k]:
            continue
        trial = dict(cur)
        trial[k] = default[k]
        if fails(d, text, trial):
            cur = trial
        else:
            need[k] = o[k]
    return ",".join("%s=%r" % kv for kv in sorted(need.items())) or "default"


def fails(d, text, o):
    try:
        d = copy.deepcopy(d)
        base = impl.loads(impl.dumps(d))
        got = impl.loads(impl.dumps(copy.deepcopy(d), **o))
    except Exception:
        return True
    if o["separate_complex_types"]:
        return reorder_diff(D.strip_hidden(base), D.strip_hidden(got)) is not None
    return D.typed(D.strip_hidden(got)) != D.typed(D.strip_hidden(base))


def run_unit(unit):
    res = R.new_result()
    if unit[0] == "API":
        return run_api(res)
    tier, shard = unit[1], unit[2]
    docs = O.documents(tier)
    sets = O.option_sets()
    corners = O.corner_sets()
    for label, text in docs[shard::NSHARD]:
        full = tier == "thorough" or label.startswith(("RICH", "S1"))
        check_doc(res, label, text, sets if full else corners)
    R.add_sub(res, "documents x 720 option sets", res["evals"])
    if shard == 0 and docs:
        R.add_sample(res, {"document": docs[0][0], "options": sets[317]}, 1)
    return res


def run_api(res):
    """option plumbing of the public functions: dumps(d, **o) == PrettyPrinter(**o).pprint(d) for every option set"""
    import mappyfile

    label, tree = O.rich_docs()[0]
    text = D.render(tree)[0]
    for o in O.option_sets():
        d = impl.loads(text)
        a = mappyfile.dumps(copy.deepcopy(d), **o)
        b = impl.dumps(copy.deepcopy(d), **o)
        # positional plumbing: every option must have an effect where it should
        res["evals"] += 1
        if a != b:
            R.add_violation(res, "api|" + O.oname(o), "mappyfile.dumps(**options) differs from PrettyPrinter(**options).pprint", {"text": text, "options": o}, None)
        else:
            R.add_outcome(res, "api_agrees")
    R.add_sub(res, "API binding", res["evals"])
    return res


def describe(tier):
    return {"rule": "case = (document, option set); state = distinct formatted text",
            "bounds": {"option_sets": len(O.option_sets()), "corner_option_sets": len(O.corner_sets()),
                       "quick_tier": "all 720 sets on the rich and shape-covering documents, the 120 corner sets on S4/corpus documents; thorough: 720 everywhere", "documents": len(O.documents(tier)),
                       "document_sources": "S4 paths+siblings, rich nested documents, one S1 document per (type, slot kind, alternative kind), root lists, "
                                           + ("all S1, whole corpus" if tier == "thorough" else "40 corpus files")}}


def replay(case):
    import mappyfile

    d = mappyfile.loads(case["text"], expand_includes=False)
    base = mappyfile.loads(mappyfile.dumps(d), expand_includes=False)
    got = mappyfile.loads(mappyfile.dumps(copy.deepcopy(d), **case["options"]), expand_includes=False)
    if case["options"]["separate_complex_types"]:
        msg = reorder_diff(D.strip_hidden(base), D.strip_hidden(got))
    else:
        msg = D.strict_diff(D.strip_hidden(base), D.strip_hidden(got))
    return {"diff": msg} if msg else None
