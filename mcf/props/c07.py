"""C07 - validation verdict equals the schema's verdict (own Draft-4 evaluator as oracle, jsonschema as cross-check)."""
from __future__ import annotations

import copy
import itertools

from .. import runner as R
from .. import vocab as V
from .. import docmodel as D
from .. import spaces as S
from .. import docprop as P
from .. import optsweep as O
from .. import schemaeval as SE
from .. import impl

ID = "C07"
LEVEL_TEXT = ("bounded exhaustive exploration + exhaustive fault enumeration on the real Validator: every document of S1-S4 (valid and invalid) "
              "for every root type, and every single fault (six kinds, every object, every slot) and every pair of faults on multi-level documents; "
              "the set of names in the returned messages must equal the set my own Draft-4 evaluator derives from the raw schema files")
ASSUMPTIONS = [
    "oracle: mcf/schemaeval.errors on the lower-cased JSON form with the raw schema of the root type; cases where it disagrees with the "
    "jsonschema library run on my own dereferenced schema are not judged (counted as oracle_disagreement)",
    "message comparison is by the set of names (one or more messages per failing location accepted); exact locations are C08's subject",
    "module-level mappyfile.validate has no schema_name and is compared on MAP roots only",
]


def units(tier):
    us = [("FAULT2", i) for i in range(len(fault_docs()) if tier == "thorough" else 4)]
    us += [("FAULT1", i) for i in range(len(fault_docs()))]
    us += [("API", i) for i in range(4)]
    us += S.doc_units(["S1", "S2", "S4", "S5"], tier)
    if tier == "thorough":
        us += S.doc_units(["S3"], "quick")
    return us


# ------------------------------------------------------------------ oracle
def name_of(d, path):
    cur = d
    name = str(d.get("__type__", "?"))
    key_under = None
    for p in path:
        cur = cur[p]
        if isinstance(cur, dict):
            name = str(cur.get("__type__", p))
            key_under = None
        elif key_under is None and isinstance(p, str):
            key_under = p
    return (key_under or name).upper()


def location_of(d, path):
    """the failing location a message stands for: (path of the enclosing object, keyword or None)"""
    cur = d
    obj_path = ()
    key = None
    for i, p in enumerate(path):
        cur = cur[p]
        if isinstance(cur, dict):
            obj_path = tuple(path[: i + 1])
            key = None
        elif key is None and isinstance(p, str):
            key = p
    return (obj_path, key)


def expected_names(d, root_type, version=None):
    """(set of names, sorted error list) or None when the two oracles disagree"""
    j = SE.lower_json(D.plain(d))
    schema = SE.resolve(root_type, version)
    mine = sorted(set(SE.errors(j, schema)), key=repr)
    lib = sorted(set(SE.lib_errors(j, schema)), key=repr)
    if [m[0] for m in mine] != [l_[0] for l_ in lib] and sorted({m[0] for m in mine}, key=repr) != sorted({l_[0] for l_ in lib}, key=repr):
        return None
    return {name_of(j, p) for p, _ in mine}, mine


def got_names(msgs):
    out = set()
    for m in msgs:
        t = m["message"]
        assert t.startswith("ERROR: Invalid value in "), t
        out.add(t[len("ERROR: Invalid value in "):])
    return out


def judge(d, root_type, version=None):
    """(category, message)"""
    exp = expected_names(d, root_type, version)
    if exp is None:
        return "oracle_disagreement", None
    names, errs = exp
    j = SE.lower_json(D.plain(d))
    need = {}
    for loc in {(p_, name_of(j, p_)) for p_, _ in errs}:
        need[loc[1]] = need.get(loc[1], 0) + 0   # placeholder, counted below per distinct location
    locs = {}
    for p_, _ in errs:
        locs.setdefault(name_of(j, p_), set()).add(location_of(j, p_))
    snap = D.typed(d)
    try:
        msgs = impl.validate(d, schema_name=root_type, version=version)
    except Exception as e:
        return "raises:" + impl.exc_name(e), "validate raised %s: %s (schema errors at %s)" % (impl.exc_name(e), str(e)[:120], [p for p, _ in errs][:4])
    if D.typed(d) != snap:
        return "mutated", "validate modified its argument"
    got = got_names(msgs)
    if got != names:
        return "names", "messages name %s, schema verdict names %s (errors %s)" % (sorted(got), sorted(names), errs[:4])
    if (not msgs) != (not errs):
        return "verdict", "messages=%d schema errors=%d" % (len(msgs), len(errs))
    # a message for EVERY failing keyword / object: at least one message per distinct failing location
    counts = {}
    for m in msgs:
        n = m["message"][len("ERROR: Invalid value in "):]
        counts[n] = counts.get(n, 0) + 1
    for n, ls in locs.items():
        if counts.get(n, 0) < len(ls):
            return "missing_message", "%d message(s) name %s but %d distinct locations fail: %s" % (counts.get(n, 0), n, len(ls), sorted(ls, key=repr)[:4])
    return None, None


# ------------------------------------------------------------------ documents
def check_tree(res, label, tree):
    if isinstance(tree, list):
        return
    text, _ = D.render(tree)
    try:
        d = impl.loads(text)
    except Exception:
        R.add_outcome(res, "unparsed")
        return
    if isinstance(d, list):
        return
    cat, msg = judge(d, tree.type)
    res["evals"] += 1
    if cat is None:
        R.add_outcome(res, "agrees")
        res["states"].add(R.h64(D.typed(d)))
        return
    if cat == "oracle_disagreement":
        R.add_skip(res, "oracle_disagreement (own evaluator vs jsonschema)")
        return
    R.add_outcome(res, cat)

    def pred(t):
        try:
            dd = impl.loads(D.render(t)[0])
        except Exception:
            return False
        return not isinstance(dd, list) and judge(dd, t.type)[0] == cat

    small = P.minimise(tree, pred)
    _, msg2 = judge(impl.loads(D.render(small)[0]), small.type)
    R.add_violation(res, "%s|%s" % (cat, P.oneline(small)), "validate disagrees with the schema: " + (msg2 or msg or ""),
                    {"tree": D.describe(small)}, {"label": label, "message": msg2 or msg})


_fd = None


def fault_docs():
    """multi-level schema-valid documents: every containment path (before/after variant) + rich documents"""
    global _fd
    if _fd is None:
        out = []
        for label, tree in S.s4():
            if label.endswith("before_after") or label.startswith("S4mix"):
                out.append((label, tree))
        for label, tree in O.rich_docs():
            if not isinstance(tree, list):
                out.append((label, tree))
        keep = []
        for label, tree in out:
            try:
                d = impl.loads(D.render(tree)[0])
            except Exception:
                continue
            if list(SE.errors(SE.lower_json(D.plain(d)), SE.resolve(tree.type))):
                continue       # only schema-valid documents are used as bases for fault injection
            keep.append((label, tree))
        _fd = keep
    return _fd


def objects_of(d, path=()):
    """paths of every typed object in a dictionary"""
    if isinstance(d, dict) and d.get("__type__") in V.object_types():
        yield path
        for k, v in d.items():
            if isinstance(v, dict):
                yield from objects_of(v, path + (k,))
            elif isinstance(v, list):
                for i, x in enumerate(v):
                    if isinstance(x, dict):
                        yield from objects_of(x, path + (k, i))


def get_at(d, path):
    for p in path:
        d = d[p]
    return d


def faults_for(otype, full=True):
    """list of (kind, key, function(obj))"""
    out = []
    for s in V.slots(otype):
        if s.kind != "simple":
            continue
        kinds = {a.kind for a in s.alts}
        if kinds <= {"enum"} or (kinds <= {"enum", "boolean"}):
            out.append(("enum_miss", s.key, "zzz"))
        if kinds == {"integer"}:
            out.append(("whole_float_for_integer", s.key, 7.0))
        if kinds <= {"number", "integer"}:
            for a in s.alts:
                sc = a.schema
                if "minimum" in sc:
                    out.append(("range_low", s.key, sc["minimum"] - 1))
                if "maximum" in sc:
                    out.append(("range_high", s.key, sc["maximum"] + 1))
            out.append(("wrong_type", s.key, "abc"))
        if kinds == {"string"}:
            out.append(("wrong_type", s.key, 5))
        if kinds == {"numlist"} and s.alts[0].n:
            n = s.alts[0].n
            base = [10, 10, 10, 10, 10, 10, 10][:n]
            out.append(("arity_minus", s.key, base[:-1]))
            out.append(("arity_plus", s.key, base + [10]))
            out.append(("list_item_type", s.key, base[:-1] + ["x"]))
            it = s.alts[0].item
            if isinstance(it, dict) and "minimum" in it:
                out.append(("list_item_range", s.key, [it["minimum"] - 1] + base[1:]))
            if s.alts[0].integer:
                out.append(("list_item_float", s.key, [10.5] + base[1:]))
                out.append(("list_item_whole_float", s.key, [10.0] + base[1:]))
        if kinds == {"boolean"}:
            out.append(("wrong_type", s.key, "abc"))
    for s in V.slots(otype):
        if s.kind in ("points", "pattern"):
            out.append(("pair_item_type", s.key, [[1, 2], ["x", 3]]))
            out.append(("pair_not_a_list", s.key, [[1, 2], 5]))
            out.append(("pairs_scalar", s.key, "abc"))
        if s.kind == "projection":
            out.append(("projection_item_type", s.key, ["init=epsg:4326", 5]))
            out.append(("projection_empty", s.key, []))
        if s.kind == "kv":
            out.append(("kv_not_object", s.key, "abc"))
    out.append(("unknown_keyword", "zzunknown", 1))
    # keys that only look hidden: the schemas admit hidden keys of the form __letters__ and nothing else
    out.append(("unknown_keyword", "__note_1__", 1))
    out.append(("unknown_keyword", "__ID9__", "x"))
    for r in V.required(otype):
        out.append(("missing_required", r, None))
    for s in V.slots(otype):
        if s.kind == "repeated" and s.key != "include":
            out.append(("repeated_item_type", s.key, ["ok", 5]))
    if not full:
        seen, red = set(), []
        for f in out:
            if f[0] not in seen:
                seen.add(f[0])
                red.append(f)
        out = red
    return out


def apply_fault(d, opath, fault):
    obj = get_at(d, opath)
    kind, key, val = fault
    if kind == "missing_required":
        if key in obj:
            del obj[key]
        else:
            return False
    else:
        obj[key] = copy.deepcopy(val)
    return True


def run_faults(res, idx, pairs):
    label, tree = fault_docs()[idx]
    text = D.render(tree)[0]
    base = impl.loads(text)
    root = tree.type
    sites = []
    for op in objects_of(base):
        ot = get_at(base, op)["__type__"]
        for f in faults_for(ot, full=not pairs):
            sites.append((op, f))
    combos = [(s,) for s in sites] if not pairs else itertools.combinations(sites, 2)
    for combo in combos:
        d = copy.deepcopy(base)
        ok = True
        for op, f in combo:
            ok = apply_fault(d, op, f) and ok
        if not ok:
            continue
        cat, msg = judge(d, root)
        res["evals"] += 1
        if cat is None:
            R.add_outcome(res, "agrees")
            res["states"].add(R.h64(D.typed(d)))
        elif cat == "oracle_disagreement":
            R.add_skip(res, "oracle_disagreement (own evaluator vs jsonschema)")
        else:
            R.add_outcome(res, cat)
            # minimal form: the fault kinds and the type/keyword they hit (not the document)
            desc = ";".join("%s@%s.%s" % (f[0], get_at(base, op)["__type__"], f[1]) for op, f in combo)
            if len(combo) == 2:
                # a pair is only interesting if neither single fault alone fails
                singles = []
                for op, f in combo:
                    d1 = copy.deepcopy(base)
                    apply_fault(d1, op, f)
                    singles.append(judge(d1, root)[0])
                if any(singles):
                    continue
            R.add_violation(res, "%s|fault %s" % (cat, desc), "validate disagrees with the schema after fault injection: " + (msg or ""),
                            {"text": text, "root": root, "faults": [[list(op), list(f)] for op, f in combo]}, {"document": label, "message": msg})
        # metamorphic variants on single faults: upper-cased values, hidden keys, list of roots
        if len(combo) == 1:
            for variant in ("upper_values", "hidden_keys", "as_list"):
                dv = copy.deepcopy(d)
                if variant == "upper_values":
                    upper_values(dv)
                elif variant == "hidden_keys":
                    for op2 in list(objects_of(dv)):
                        get_at(dv, op2)["__extra__"] = {"x": 1}
                res["evals"] += 1
                try:
                    if variant == "as_list":
                        a = impl.validate([dv, copy.deepcopy(base)], schema_name=root)
                        b = impl.validate(dv, schema_name=root) + impl.validate(copy.deepcopy(base), schema_name=root)
                        same = [m["message"] for m in a] == [m["message"] for m in b]
                    else:
                        a = got_names(impl.validate(dv, schema_name=root))
                        b = got_names(impl.validate(d, schema_name=root))
                        same = a == b
                except Exception as e:
                    if cat and cat.startswith("raises"):
                        continue
                    same = False
                    a, b = impl.exc_name(e), ""
                if same:
                    R.add_outcome(res, "metamorphic_same")
                else:
                    desc = ";".join("%s@%s.%s" % (f[0], get_at(base, op)["__type__"], f[1]) for op, f in combo)
                    R.add_violation(res, "metamorphic:%s|fault %s" % (variant, desc), "verdict changes under %s: %r vs %r" % (variant, a, b),
                                    {"text": text, "root": root, "faults": [[list(op), list(f)] for op, f in combo], "variant": variant}, None)
    R.add_sub(res, "fault pairs" if pairs else "single faults + metamorphic variants", res["evals"])
    R.add_sample(res, {"document": label, "sites": len(sites), "example_fault": [list(sites[0][0]), list(sites[0][1])] if sites else None}, 1)


def upper_values(d):
    if isinstance(d, dict):
        for k, v in list(d.items()):
            if D.hidden(k):
                continue
            if isinstance(v, str):
                d[k] = v.upper()
            else:
                upper_values(v)
    elif isinstance(d, list):
        for i, v in enumerate(d):
            if isinstance(v, str):
                d[i] = v.upper()
            else:
                upper_values(v)


def run_api(res, shard):
    import mappyfile

    for label, tree in fault_docs()[shard::4]:
        if tree.type != "map":
            continue
        d = impl.loads(D.render(tree)[0])
        for f in [None] + faults_for("map", full=False):
            dd = copy.deepcopy(d)
            if f:
                apply_fault(dd, (), f)
            try:
                a = [m["message"] for m in mappyfile.validate(dd)]
            except Exception as e:
                a = impl.exc_name(e)
            try:
                b = [m["message"] for m in impl.validate(dd)]
            except Exception as e:
                b = impl.exc_name(e)
            res["evals"] += 1
            if a != b:
                R.add_violation(res, "api|%s|%s" % (label, f), "mappyfile.validate differs from Validator.validate", {"api": True}, {"a": a, "b": b})
            else:
                R.add_outcome(res, "api_agrees")
    R.add_sub(res, "API binding", res["evals"])
    return res


def run_unit(unit):
    res = R.new_result()
    if unit[0] == "FAULT1":
        run_faults(res, unit[1], False)
        return res
    if unit[0] == "FAULT2":
        run_faults(res, unit[1] * (len(fault_docs()) // 4) if False else unit[1], True)
        return res
    if unit[0] == "API":
        return run_api(res, unit[1])
    for label, tree in S.iter_unit(unit):
        check_tree(res, label, tree)
    R.add_sub(res, unit[0], res["evals"])
    return res


def describe(tier):
    return {"rule": "case = dictionary (document or document + injected fault(s)); state = distinct dictionary validated",
            "bounds": dict(V.summary(), fault_documents=len(fault_docs()), fault_kinds=["enum_miss", "range_low", "range_high", "arity_minus", "arity_plus",
                           "list_item_type", "list_item_range", "list_item_float", "wrong_type", "unknown_keyword", "missing_required", "repeated_item_type"],
                           pairs="all pairs of one-fault-per-kind sites on %s documents" % ("all" if tier == "thorough" else "4"))}


def replay(case):
    if case.get("api"):
        return None
    if "tree" in case:
        tree = D.undescribe(case["tree"])
        d = impl.loads(D.render(tree)[0])
        root = tree.type
    else:
        d = impl.loads(case["text"])
        root = case["root"]
        for op, f in case["faults"]:
            apply_fault(d, tuple(op), tuple(f))
    cat, msg = judge(d, root)
    return {"category": cat, "message": msg} if cat and cat != "oracle_disagreement" else None
