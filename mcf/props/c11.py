"""C11 - any input is either parsed or rejected with a Lark-family error, promptly."""
from __future__ import annotations

import gc
import itertools
import mmap
import os
import pickle
import re
import signal
import struct
import time

from .. import runner as R
from .. import vocab as V
from .. import docmodel as D
from .. import spaces as S
from .. import optsweep as O
from .. import corpus
from .. import impl

ID = "C11"
LEVEL_TEXT = ("bounded exhaustive exploration of the real loads: (a) every LALR parser context (top-k of the state stack of the table the real "
              "Parser built) x every terminal x lexeme variants, with completions; (b) every single token-level mutation of every seed document; "
              "(c) every token soup up to length 3/4 over a 25-lexeme alphabet; (d) every unterminated opener at every token boundary; (e) every block "
              "type as root; (f) pumped families at N..8N with a bounded growth measurement.  Outcome must be a dictionary/list or a LarkError "
              "carrying a position inside the text")
ASSUMPTIONS = [
    "default options; inputs bounded as described; nesting depth <= 100",
    "for seeds containing INCLUDE lines an OSError for a missing file or the documented 'Maximum nested include' ValueError are accepted outcomes (C15)",
    "timing is the one clause decided by measurement: alarm only if t(8N)/t(N) > 24 and t(4N)/t(N) > 9, best of three, GC disabled, t(8N) >= 0.2 s, confirmed by two further measurements",
]

HORIZON_S = 20
STALL_S = 45            # no progress for this long => the child is killed from outside (a regex blow-up cannot be interrupted from inside)


class Timeout(Exception):
    pass


class Skipped(Exception):
    pass


class UnitAborted(Exception):
    pass


SLOW_S = 4.0            # CPU seconds for one load of an input below 20 000 characters (a normal load takes about a millisecond)
SLOW_SEEN = [0]
IN_SHRINK = [False]


_COUNT = [0]            # executions started in this (child) process
_SKIP = [0]             # executions to skip (already done / timed out before a restart)
_CAPTURE = [None, None]  # (index to capture, captured text) - used by the parent to recover the text of a stalled execution
_CTR = [None]           # shared mmap holding the progress counter


_ALIVE = [0]


def alive():
    """harness-side progress (context enumeration, completions, seed preparation): keeps the watchdog from mistaking harness work for a stall"""
    _ALIVE[0] += 1
    if _CTR[0] is not None and _CAPTURE[0] is None:
        _CTR[0].seek(8)
        _CTR[0].write(struct.pack("q", _ALIVE[0]))


def guarded_loads(text, **kw):
    """the only place where C11 enters the implementation: ticks the progress counter first"""
    _COUNT[0] += 1
    n = _COUNT[0]
    if _CAPTURE[0] is not None:
        if n == _CAPTURE[0]:
            _CAPTURE[1] = text
        raise Skipped()
    if n <= _SKIP[0]:
        raise Skipped()
    if _CTR[0] is not None:
        _CTR[0].seek(0)
        _CTR[0].write(struct.pack("q", n))
    return impl.loads(text, **kw)


def _alarm(signum, frame):
    raise Timeout()


FLAGS = [dict()]       # the option set classify() runs under (default options, or bookkeeping on)


def classify(text, include_ok=False):
    """(category, message).  category None = conforming outcome; 'slow' when one load burns more than SLOW_S CPU seconds"""
    t0 = time.process_time()
    cat, msg = _classify(text, include_ok)
    dt = time.process_time() - t0
    if cat == "timeout":
        SLOW_SEEN[0] += 1
    if cat is None and dt > SLOW_S and len(text) < 20000 and not IN_SHRINK[0]:
        SLOW_SEEN[0] += 1
        return "slow", "loads used %.1f s of CPU time on a %d-character input" % (dt, len(text))
    return cat, msg


def _classify(text, include_ok=False):
    if SLOW_SEEN[0] >= 3:
        raise UnitAborted()
    signal.signal(signal.SIGALRM, _alarm)
    signal.setitimer(signal.ITIMER_REAL, HORIZON_S)
    try:
        try:
            d = guarded_loads(text, expand_includes=True, **FLAGS[0])
        finally:
            signal.setitimer(signal.ITIMER_REAL, 0)
    except Skipped:
        return "skipped", None
    except Timeout:
        return "timeout", "no result within %d s" % HORIZON_S
    except RecursionError:
        return "exc:RecursionError", "recursion limit"
    except Exception as e:
        if impl.is_lark_error(e):
            import lark

            if isinstance(e, lark.exceptions.UnexpectedInput):
                ln, col = getattr(e, "line", None), getattr(e, "column", None)
                nlines = text.count("\n") + 1
                if not (isinstance(ln, int) and isinstance(col, int)):
                    return "badpos", "syntax error without integer line/column: %r %r" % (ln, col)
                if isinstance(e, lark.exceptions.UnexpectedToken) and getattr(e.token, "type", "") == "$END":
                    return None, "rejected_at_end"
                if not (1 <= ln <= nlines + 1 and col >= 1):
                    return "badpos", "syntax error position (%r, %r) outside the text (%d lines)" % (ln, col, nlines)
            return None, "rejected:" + type(e).__name__
        if include_ok and isinstance(e, (OSError, ValueError)) and ("include" in str(e).lower() or isinstance(e, OSError)):
            return None, "include_error"
        return "exc:" + type(e).__name__, "%s: %s" % (type(e).__name__, str(e)[:150])
    if isinstance(d, dict) or (isinstance(d, list) and all(isinstance(x, dict) for x in d)):
        return None, "accepted"
    return "badresult", "loads returned %s" % type(d).__name__


INCLUDE_RE = re.compile(r"(?im)^\s*include")


def run_text(res, text, sub, sigtext=None, replay_extra=None):
    inc = bool(INCLUDE_RE.search(text))
    cat, msg = classify(text, include_ok=inc)
    if cat == "skipped":
        return True
    res["evals"] += 1
    if cat is None:
        R.add_outcome(res, msg.split(":")[0] if msg else "ok")
        res["states"].add(R.h64((msg, text[:200], len(text))))
        return True
    R.add_outcome(res, cat)
    if cat in ("slow", "timeout"):
        R.add_violation(res, "%s|%s" % (cat, text[:120].replace("\n", " ")), "loads is not prompt: " + (msg or ""), {"text": text, "storm": True}, {"sub_space": sub})
        return False
    small = shrink(text, cat)
    R.add_violation(res, "%s%s|%s" % (cat, "|flags" if FLAGS[0] else "", small if len(small) < 200 else small[:200]), "loads neither parses nor raises a parse error: " + (classify(small, inc)[1] or msg),
                    {"text": small, "flags": dict(FLAGS[0])}, {"sub_space": sub, "original": text[:500]})
    return False


def shrink(text, cat):
    """token-level delta debugging (deterministic): drop tokens while the category persists.
    Line structure is kept (a separator containing a line break stays a line break): INCLUDE handling is line based."""
    spans = [(m.start(), m.end()) for m in re.finditer(r"\S+", text)]
    if len(spans) > 400 or not spans:
        return text
    inc = bool(INCLUDE_RE.search(text))
    IN_SHRINK[0] = True
    try:
        return _shrink(text, cat, spans, inc)
    finally:
        IN_SHRINK[0] = False


def _shrink(text, cat, spans, inc):
    cur = []
    for i, (a, b) in enumerate(spans):
        sep = text[spans[i - 1][1]: a] if i else ""
        cur.append(("\n" if "\n" in sep else (" " if i else ""), text[a:b]))

    def join(items):
        out = "".join(s_ + t for s_, t in items)
        return out.lstrip(" ")

    changed = True
    n = 0
    while changed and n < 600:
        changed = False
        for i in range(len(cur)):
            cand = cur[:i] + cur[i + 1:]
            n += 1
            if cand and classify(join(cand), inc)[0] == cat:
                cur, changed = cand, True
                break
    out = join(cur)
    return out if classify(out, inc)[0] == cat else text


# ------------------------------------------------------------------ seeds and tokenisation
TOK_RE = re.compile(r'"(?:\\"|[^"])*"|\'(?:\\\'|[^\'])*\'|#[^\n]*|/\*.*?\*/|\S+', re.S)


def tokenize(text):
    """[(start, end)] of crude tokens; separators are kept when re-joining"""
    return [(m.start(), m.end()) for m in TOK_RE.finditer(text)]


def seeds(tier):
    out = []
    for label, tree in O.rich_docs() + O.shape_docs():
        out.append((label, D.render(tree)[0]))
    for label, tree in list(S.s4())[::6]:
        out.append((label, D.render(tree)[0]))
    out.append(("expr", 'CLASS EXPRESSION ([a] > 1 AND "[b]" = "x" OR NOT ([c] IN "1,2")) TEXT (tostring([area],"%.2f")) END'))
    out.append(("listexpr", "CLASS EXPRESSION {a,b c} END"))
    out.append(("regex", "CLASS EXPRESSION /^ab+$/i END"))
    out.append(("include", 'MAP\nINCLUDE "no_such_file.map"\nEND'))
    for label, text in O.documents("quick"):
        if label.startswith("RICHC"):
            out.append((label, text))
    n = 40 if tier == "thorough" else 10
    for f in O.corpus_subset(n * 3):
        t = corpus.read(f)
        if t is not None and len(tokenize(t)) <= MAX_SEED_TOKENS and sum(1 for x in out if "/" in x[0]) < n:
            out.append((f.replace(R.REPO + "/", ""), t))
    return [x for x in out if len(tokenize(x[1])) <= MAX_SEED_TOKENS]


MAX_SEED_TOKENS = 220      # bound: seeds are documents of at most this many tokens; every position of every seed is mutated


REPLACEMENTS = ["END", "MAP", "LAYER", "CLASS", "STYLE", "SYMBOL", "GRID", "NAME", "name", "TYPE", "COLOR", "POINTS", "PATTERN", "PROJECTION",
                "METADATA", "CONFIG", "VALUES", "INCLUDE", "AUTO", "TRUE", "NOT", "AND", "OR", "IN", "abc", "7", "-2.5", '"s"', "'s'", '"#ff00aa"',
                "[attr]", "(", ")", "{", "}", "[", "]", "/re/", ",", "=", "%", "`d`", "%v%", "./a/b", "@", "/* x */", "/* y */ /* z */", "# h\n"]

SOUP = ["MAP", "LAYER", "STYLE", "SYMBOL", "GRID", "END", "NAME", "TYPE", "POINTS", "PROJECTION", "METADATA", "CONFIG", "AUTO", "abc", "7", "2.5",
        '"s"', "[a]", "(", ")", "{", "}", "/r/", "=", "NOT"]

OPENERS = ['"', "'", "/", "/*", "(", "[", "{", "`", "%", "\\\\"]


def units(tier):
    us = [("TIMING", i) for i in range(len(pump_families()))] + [("STORM", i, 16) for i in range(16)]
    k = 2 if tier == "quick" else 3
    us += [("LALR", k, i, 32) for i in range(32)]
    ns = len(seeds(tier))
    us += [("MUT", i) for i in range(ns)]
    us += [("SOUP", 3 if tier == "quick" else 4, i) for i in range(len(SOUP))]
    us += [("ROOTS",), ("INCLUDEQ",)]
    return us


# ------------------------------------------------------------------ (a) LALR contexts
def run_lalr(res, k, shard, nshards):
    from .. import lalr

    alive()
    ex = lalr.Explorer(k)
    ctxs = ex.contexts(progress=alive)
    keys = sorted(ctxs.keys())
    if ex.unmodelled:
        R.add_skip(res, "terminals without lexemes: %s" % ex.unmodelled)
    n = 0
    for ci, c in enumerate(keys):
        if ci % nshards != shard:
            continue
        path, ip = ctxs[c]
        prefix = " ".join(lx for _, lx in path)
        acc = ip.accepts()
        alive()
        for tname in ex.term_names + ["$END"]:
            lexemes = ex.terms.get(tname, [""]) if tname != "$END" else [""]
            for lx in lexemes:
                text = (prefix + " " + lx).strip()
                variants = [text]
                if tname in acc and tname != "$END":
                    alive()
                    try:
                        ip2 = ex.feed(ip, tname, lx)
                        comp = ex.completion(ip2)
                    except Exception:
                        comp = None
                    if comp is not None:
                        ctext = " ".join(l_ for _, l_ in comp)
                        variants.append((text + " " + ctext).strip())
                        # the same with a neutral keyword line before every END (LALR(1) decisions that only go wrong when another keyword follows)
                        variants.append((text + " " + ctext.replace("END", 'TEMPLATE "t" END')).strip())
                for v in variants:
                    if v:
                        run_text(res, v, "LALR")
                        n += 1
    R.add_sub(res, "LALR contexts (top-%d of the state stack: %d contexts, %d terminals) x lexemes (+completions)" % (k, len(keys), len(ex.term_names)), n)
    if shard == 0:
        st, ent = ex.table_size()
        R.add_sample(res, {"lalr_states": st, "table_entries": ent, "contexts": len(keys), "example_context_path": [lx for _, lx in ctxs[keys[len(keys) // 2]][0]]}, 1)


# ------------------------------------------------------------------ (b)+(d) mutations
def run_mut(res, tier, idx):
    alive()
    label, text = seeds(tier)[idx]
    alive()
    spans = tokenize(text)
    toks = [text[a:b] for a, b in spans]
    seps = [text[spans[i][1]: spans[i + 1][0]] for i in range(len(spans) - 1)]
    head, tail = text[: spans[0][0]] if spans else "", text[spans[-1][1]:] if spans else ""

    def join(ts, ss):
        out = [head]
        for i, t in enumerate(ts):
            out.append(t)
            if i < len(ts) - 1:
                out.append(ss[i] if i < len(ss) else " ")
        out.append(tail)
        return "".join(out)

    n0 = res["evals"]
    nt = len(toks)
    # bound the per-seed work for long corpus files: positions are strided, but every kind is applied at every chosen position
    positions = list(range(0, nt))
    for i in positions:
        run_text(res, join(toks[:i] + toks[i + 1:], seps[:i] + seps[i + 1:] if i < len(seps) else seps[:-1]), "delete")
        run_text(res, join(toks[: i + 1] + toks[i:], seps[:i] + [" "] + seps[i:]), "duplicate")
        if i + 1 < nt:
            run_text(res, join(toks[:i] + [toks[i + 1], toks[i]] + toks[i + 2:], seps), "swap")
        run_text(res, join(toks[:i], seps[: max(0, i - 1)]) if i else "", "truncate") if i else None
        for r_ in REPLACEMENTS:
            run_text(res, join(toks[:i] + [r_] + toks[i + 1:], seps), "replace")
            run_text(res, join(toks[:i] + [r_] + toks[i:], seps[:i] + [" "] + seps[i:]), "insert")
        for o in OPENERS:
            run_text(res, join(toks[:i] + [o] + toks[i:], seps[:i] + [" "] + seps[i:]), "unterminated")
            run_text(res, join(toks[:i] + [o + toks[i]] + toks[i + 1:], seps), "unterminated_glued")
    # the same inputs with bookkeeping on (include_comments + include_position): structural mutations and comment insertions
    FLAGS[0] = dict(include_comments=True, include_position=True)
    try:
        for i in positions:
            run_text(res, join(toks[:i] + toks[i + 1:], seps[:i] + seps[i + 1:] if i < len(seps) else seps[:-1]), "delete+flags")
            run_text(res, join(toks[: i + 1] + toks[i:], seps[:i] + [" "] + seps[i:]), "duplicate+flags")
            if i + 1 < nt:
                run_text(res, join(toks[:i] + [toks[i + 1], toks[i]] + toks[i + 2:], seps), "swap+flags")
            for r_ in ("/* x */", "/* y */ /* z */", "# h\n", "END", '"s"'):
                run_text(res, join(toks[:i] + [r_] + toks[i:], seps[:i] + [" "] + seps[i:]), "insert+flags")
    finally:
        FLAGS[0] = dict()
    # exact error position for a character no terminal can start with
    for i in positions:
        prev = toks[i - 1] if i else ""
        if prev.startswith("#"):
            continue
        mutated = join(toks[:i] + ["@"] + toks[i:], seps[:i] + [" "] + seps[i:])
        at = len(head) + sum(len(t) for t in toks[:i]) + sum(len(s) for s in seps[:i])
        line = mutated.count("\n", 0, at) + 1
        col = at - (mutated.rfind("\n", 0, at) + 1) + 1
        assert mutated[at] == "@", (mutated[at - 3: at + 3])
        try:
            guarded_loads(mutated, expand_includes=False)
            res["evals"] += 1
            R.add_violation(res, "at_accepted|" + label, "a text containing a bare '@' was accepted", {"text": mutated}, None)
        except Skipped:
            continue
        except Exception as e:
            res["evals"] += 1
            if impl.is_lark_error(e) and (getattr(e, "line", None), getattr(e, "column", None)) == (line, col):
                R.add_outcome(res, "error_position_exact")
            elif impl.is_lark_error(e) and was_valid(text):
                R.add_outcome(res, "badpos")
                R.add_violation(res, "badpos|@ in %s" % label, "syntax error reported at (%r, %r) but the offending character is at (%d, %d)" % (
                    getattr(e, "line", None), getattr(e, "column", None), line, col), {"text": mutated, "want": [line, col]}, None)
            else:
                R.add_outcome(res, "seed_invalid_or_other")
    R.add_sub(res, "token-level mutations (delete, duplicate, swap, truncate, replace/insert x %d, unterminated x %d, '@' position)" % (len(REPLACEMENTS), len(OPENERS)),
              res["evals"] - n0)
    R.add_sample(res, {"seed": label, "tokens": nt}, 1)


_valid = {}


def was_valid(text):
    if text not in _valid:
        try:
            impl.loads(text, expand_includes=False)
            _valid[text] = True
        except Exception:
            _valid[text] = False
    return _valid[text]


# ------------------------------------------------------------------ (c) soups
def run_soup(res, maxlen, first):
    n = 0
    for L in range(1, maxlen + 1):
        for tail in itertools.product(SOUP, repeat=L - 1):
            run_text(res, " ".join((SOUP[first],) + tail), "soup")
            n += 1
    R.add_sub(res, "token soups length<=%d over %d lexemes" % (maxlen, len(SOUP)), n)


# ------------------------------------------------------------------ (e) roots
def run_roots(res):
    n = 0
    for t in V.object_types():
        for text in (D.render(S.min_block(t, 2))[0], "%s END" % t.upper(), "%s end" % t, "%s END %s END" % (t.upper(), t.upper())):
            cat, msg = classify(text)
            res["evals"] += 1
            n += 1
            if cat == "skipped":
                continue
            if cat is None and msg == "accepted":
                R.add_outcome(res, "root_accepted")
                res["states"].add(R.h64(text))
            else:
                R.add_outcome(res, "root_rejected")
                R.add_violation(res, "root|%s" % text.replace("\n", " "), "block type %s is not accepted as the root of a partial Mapfile (%s)" % (t.upper(), msg),
                                {"text": text, "must_accept": True}, None)
    for text in ("SYMBOLSET SYMBOL NAME 'x' END END", 'METADATA "a" "b" END', 'VALIDATION "a" "b" END', 'CONNECTIONOPTIONS "a" "b" END',
                 "LAYER TYPE POINT END CLASS END STYLE END", ""):
        cat, msg = classify(text)
        res["evals"] += 1
        n += 1
        if cat is None:
            R.add_outcome(res, msg)
        else:
            R.add_violation(res, "root|%s" % text, msg, {"text": text}, None)
    R.add_sub(res, "block types as roots", n)


# ------------------------------------------------------------------ (e') INCLUDE lines with every kind of broken quoting, naming a file that exists
def run_includeq(res):
    """the INCLUDE pre-pass is text processing outside the grammar: whatever the quoting of the line, the outcome is a dictionary, a Lark
    error or an I/O / include error - with the named file PRESENT, so that a quoting accident is not hidden behind 'file not found'"""
    import shutil
    import tempfile

    tmp = tempfile.mkdtemp(prefix="mcf_c11q_")
    try:
        p = os.path.join(tmp, "inc.map")
        with open(p, "w", encoding="utf-8") as f:
            f.write('  NAME "included"\n')
        forms = ['"%s', "'%s", '%s"', "%s'", '"%s\'', '\'%s"', '"%s  # note', "'%s # c'", '""%s""', '"%s" "extra"', "%s %s", '"%s"x', "`%s`", "(%s)", '"%s\\"', "%s # \"", '\\"%s\\"',
                 "[%s]", '"%s";', "%s\t#\t'"]
        n = 0
        for form in forms:
            for kwd in ("INCLUDE", "include"):
                for nl in ("\n", "\r\n"):
                    try:
                        arg = form % ((p,) * form.count("%s"))
                    except TypeError:
                        continue
                    text = nl.join(["MAP", "  %s %s" % (kwd, arg), "END"]) + nl
                    n += 1
                    run_text(res, text, "INCLUDE lines with broken quoting", sigtext="includeq|%s %s" % (kwd, form))
        R.add_sub(res, "INCLUDE lines with broken quoting, file present", n)
    finally:
        shutil.rmtree(tmp, ignore_errors=True)


# ------------------------------------------------------------------ (f') storms after an unterminated opener, in a killable child process
STORM_OPENERS = ['"', "'", "/", "/*", "(", "[", "{", "`", "%", "\\\\", "#", ""]
STORM_UNITS = ["\\\\", '\\"', "\\'", '"', "'", "/", "*/", "*", "(", ")", "]", "}", "%", "#", "\\", "i", "`", "a\\\\b"]
STORM_SIZES = [12, 24, 36]
STORM_TIMEOUT_S = 15

CHILD = r"""
import sys, json, logging
logging.disable(logging.CRITICAL)
import lark
from mappyfile.parser import Parser
from mappyfile.transformer import MapfileToDict
p = Parser(expand_includes=False); m = MapfileToDict()
for line in sys.stdin:
    text = json.loads(line)
    try:
        m.transform(p.parse(text)); out = "accepted"
    except Exception as e:
        out = "rejected" if isinstance(e, lark.exceptions.LarkError) else "exc:" + type(e).__name__
    sys.stdout.write(out + "\n"); sys.stdout.flush()
"""


def storm_cases():
    out = []
    for o in STORM_OPENERS:
        for u in STORM_UNITS:
            for n in STORM_SIZES:
                for glue in (" ", ""):
                    out.append("MAP\n  NAME %sabc %s\n  LAYER\n    DATA 'c:%sdata'\n  END\nEND" % (o, (u + glue) * n, (u + glue) * n))
    return out


def run_storm(res, shard, nshards):
    """regex / lexer blow-ups cannot be interrupted inside the interpreter: each case runs in a child process that is killed at the horizon"""
    import os
    import select
    import subprocess
    import sys as _sys

    cases = storm_cases()[shard::nshards]

    def spawn():
        env = dict(os.environ)
        return subprocess.Popen([_sys.executable, "-c", CHILD], stdin=subprocess.PIPE, stdout=subprocess.PIPE, text=True, env=env, bufsize=1)

    child = spawn()
    import json as _json

    for text in cases:
        child.stdin.write(_json.dumps(text) + "\n")
        child.stdin.flush()
        r, _, _ = select.select([child.stdout], [], [], STORM_TIMEOUT_S + (20 if res["evals"] == 0 else 0))
        res["evals"] += 1
        if not r:
            child.kill()
            child.wait()
            R.add_outcome(res, "timeout")
            R.add_violation(res, "timeout|%s" % text[:60].replace("\n", " "), "loads does not return within %d s on a %d-character input" % (STORM_TIMEOUT_S, len(text)),
                            {"text": text, "storm": True}, None)
            child = spawn()
            continue
        out = child.stdout.readline().strip()
        if out in ("accepted", "rejected"):
            R.add_outcome(res, out)
            res["states"].add(R.h64((out, text)))
        else:
            R.add_outcome(res, out or "child_died")
            R.add_violation(res, "%s|%s" % (out or "child_died", text[:60].replace("\n", " ")), "loads neither parses nor raises a parse error (%s)" % out,
                            {"text": text, "storm": True}, None)
            if child.poll() is not None:
                child = spawn()
    child.kill()
    child.wait()
    R.add_sub(res, "storms after an unterminated opener (%d openers x %d units x %s repetitions x glued/spaced), each in a killable child" % (
        len(STORM_OPENERS), len(STORM_UNITS), STORM_SIZES), res["evals"])


# ------------------------------------------------------------------ (f) pumped families
def pump_families():
    """(name, function N -> text).  Sizes are chosen so that t(8N) is measurable"""
    fams = [
        ("many layers", lambda n: "MAP " + 'LAYER NAME "l" TYPE POINT END ' * n + "END"),
        ("long metadata", lambda n: "MAP WEB METADATA " + '"k" "v" ' * n + "END END END"),
        ("many classes+styles", lambda n: "LAYER TYPE LINE " + "CLASS STYLE COLOR 1 2 3 END END " * n + "END"),
        ("repeated processing", lambda n: "LAYER TYPE RASTER " + 'PROCESSING "B=1" ' * n + "END"),
        ("many points pairs", lambda n: "FEATURE POINTS " + "1 2 " * n + "END END"),
        ("many POINTS blocks", lambda n: "FEATURE " + "POINTS 1 2 END " * n + "END"),
        ("many PATTERN pairs", lambda n: "STYLE PATTERN " + "1 2 " * n + "END END"),
        ("many projection strings", lambda n: "MAP PROJECTION " + '"a=b" ' * n + "END END"),
        ("many config", lambda n: "MAP " + 'CONFIG "K" "v" ' * n + "END"),
        ("long string", lambda n: 'MAP NAME "' + "x" * (n * 10) + '" END'),
        ("long bare word", lambda n: "MAP NAME " + "x" * (n * 10) + " END"),
        ("long comment", lambda n: "MAP # " + "c" * (n * 10) + "\nEND"),
        ("many comments", lambda n: "MAP\n" + "# c\n" * n + "END"),
        ("many c-comments", lambda n: "MAP " + "/* c */ " * n + "END"),
        ("slash storm", lambda n: "MAP NAME " + "/ " * n + "END"),
        ("quote storm", lambda n: 'MAP NAME "a" ' + '" ' * n),
        ("open comment storm", lambda n: "MAP " + "/* " * n),
        ("whitespace", lambda n: "MAP" + " \t" * (n * 5) + "END"),
        ("newlines", lambda n: "MAP" + "\n" * (n * 5) + "END"),
        ("long expression chain", lambda n: "CLASS EXPRESSION (" + " AND ".join(["[a] = 1"] * min(n, 90)) + ") END " * 1),
        ("many expressions", lambda n: "LAYER TYPE POINT " + "CLASS EXPRESSION ([a] = 1 AND [b] > 2) END " * n + "END"),
        ("long list expression", lambda n: "CLASS EXPRESSION {" + ",".join(["a"] * n) + "} END"),
        ("many root blocks", lambda n: "CLASS NAME 'c' END " * n),
        ("many numbers error", lambda n: "MAP EXTENT " + "1 " * n + "END"),
        ("many unknown words", lambda n: "MAP " + "abc " * n + "END"),
        ("many hex colours", lambda n: "LAYER TYPE POINT " + 'CLASS STYLE COLOR "#ff00aa" END END ' * n + "END"),
        ("many attribute bindings", lambda n: "LAYER TYPE POINT " + "CLASS STYLE SIZE [s] ANGLE [a] END END " * n + "END"),
        ("many symbols", lambda n: "SYMBOLSET " + 'SYMBOL NAME "s" TYPE ELLIPSE POINTS 1 1 END END ' * n + "END"),
        ("deep nesting x many", lambda n: "MAP " + "LAYER TYPE POINT CLASS LABEL STYLE SYMBOL NAME 'x' END END END END END " * (n // 4 + 1) + "END"),
        ("regex storm", lambda n: "CLASS " + "EXPRESSION /a/ " * n + "END"),
    ]
    return fams


BASE_N = 1000


def measure(text):
    gc.collect()
    gc.disable()
    try:
        best = None
        for _ in range(3):
            t0 = time.perf_counter()
            try:
                guarded_loads(text, expand_includes=False)
            except Exception:
                pass
            dt = time.perf_counter() - t0
            best = dt if best is None or dt < best else best
        return best
    finally:
        gc.enable()


def run_timing(res, idx):
    name, f = pump_families()[idx]
    times = []
    for mult in (1, 2, 4, 8):
        text = f(BASE_N * mult)
        cat, msg = classify(text) if mult == 1 else (None, None)
        if cat is not None and cat != "timeout":
            R.add_violation(res, "%s|pumped family %s" % (cat, name), msg, {"family": name, "n": BASE_N}, None)
        times.append(measure(text))
        res["evals"] += 3
    ratio = times[3] / times[0] if times[0] > 0 else 0
    R.add_sample(res, {"family": name, "N": BASE_N, "seconds_at_N_2N_4N_8N": [round(t, 4) for t in times], "ratio_8N_over_N": round(ratio, 2)}, 1)
    res["states"].add(R.h64(name))
    if times[3] >= 0.2 and ratio > 24 and times[2] / max(times[0], 1e-9) > 9:
        # confirm: three times in a row
        again = []
        for _ in range(2):
            a, b = measure(f(BASE_N)), measure(f(BASE_N * 8))
            again.append(b / a if a > 0 else 0)
        if all(r_ > 24 for r_ in again):
            R.add_outcome(res, "superlinear")
            R.add_violation(res, "slow|pumped family %s" % name, "load time grows faster than linearly: t(N..8N)=%s, ratio 8N/N = %.1f (>24)" % (
                [round(t, 3) for t in times], ratio), {"family": name, "n": BASE_N}, None)
            return
    R.add_outcome(res, "linear_growth")
    R.add_sub(res, "pumped families x {N,2N,4N,8N} x best-of-3", 12)


def run_unit(unit):
    if unit[0] == "STORM":
        res = R.new_result()
        run_storm(res, unit[1], unit[2])
        return res
    return run_guarded(unit)


def run_guarded(unit):
    """run the unit in a forked child watched from outside: if the progress counter stands still for STALL_S seconds the child is
    killed, the stalled input is reported as a timeout violation and a new child continues after it"""
    total = R.new_result()
    skip = 0
    for attempt in range(6):
        ctr = mmap.mmap(-1, 16)
        ctr.write(struct.pack("qq", 0, 0))
        r_fd, w_fd = os.pipe()
        pid = os.fork()
        if pid == 0:
            try:
                os.close(r_fd)
                _CTR[0] = ctr
                _COUNT[0] = 0
                _SKIP[0] = skip
                try:
                    payload = ("ok", run_unit_inner(unit))
                except BaseException:
                    import traceback

                    payload = ("err", traceback.format_exc())
                with os.fdopen(w_fd, "wb") as f:
                    pickle.dump(payload, f)
            finally:
                os._exit(0)
        os.close(w_fd)
        last, last_live, last_change = -1, -1, time.time()
        stalled = False
        limit = STALL_S * (3 if unit[0] == "TIMING" else 1)
        chunks = []
        import select

        eof = False
        while True:
            # drain the result pipe while waiting (a large result would otherwise block the child in write())
            rd, _, _ = select.select([r_fd], [], [], 0.25)
            if rd:
                b = os.read(r_fd, 1 << 20)
                if b:
                    chunks.append(b)
                    last_change = time.time()
                    continue
                eof = True
            if eof:
                os.waitpid(pid, 0)
                break
            ctr.seek(0)
            cur, live = struct.unpack("qq", ctr.read(16))
            if cur != last or live != last_live:
                last, last_live, last_change = cur, live, time.time()
            elif time.time() - last_change > limit:
                stalled = True
                os.kill(pid, signal.SIGKILL)
                os.waitpid(pid, 0)
                break
        os.close(r_fd)
        data = b"".join(chunks)
        ctr.close()
        if not stalled:
            if data:
                status, payload = pickle.loads(data)
                if status == "ok":
                    R.merge(total, payload)
                    return total
                raise RuntimeError(payload)
            raise RuntimeError("C11 child for unit %r died without a result" % (unit,))
        # recover the text of the stalled execution by enumerating (without executing) in this process
        _COUNT[0] = 0
        _SKIP[0] = 0
        _CAPTURE[0], _CAPTURE[1] = last, None
        try:
            run_unit_inner(unit)
        except BaseException:
            pass
        text = _CAPTURE[1]
        _CAPTURE[0], _CAPTURE[1] = None, None
        total["evals"] += last - skip
        R.add_outcome(total, "timeout")
        R.add_violation(total, "timeout|%s" % ((text or "?")[:80].replace("\n", " ")), "loads made no progress for %d s on a %d-character input (child process killed)" % (
            limit, len(text or "")), {"text": text, "storm": True}, {"unit": repr(unit), "execution_index": last})
        skip = last
    total["caps"].append("unit %r: more than 5 stalled executions, rest of the unit not explored" % (unit,))
    return total


def run_unit_inner(unit):
    SLOW_SEEN[0] = 0
    res = R.new_result()
    try:
        _run_unit_inner(unit, res)
    except UnitAborted:
        res["caps"].append("unit %r stopped after 3 slow loads (each reported as a violation)" % (unit,))
    return res


def _run_unit_inner(unit, res):
    k = unit[0]
    if k == "LALR":
        run_lalr(res, unit[1], unit[2], unit[3])
    elif k == "MUT":
        run_mut(res, _TIER[0], unit[1])
    elif k == "SOUP":
        run_soup(res, unit[1], unit[2])
    elif k == "INCLUDEQ":
        run_includeq(res)
    elif k == "ROOTS":
        run_roots(res)
    elif k == "TIMING":
        run_timing(res, unit[1])
    elif k == "STORM":
        run_storm(res, unit[1], unit[2])
    return res


_TIER = ["quick"]
_units = units


def units(tier):  # noqa: F811
    _TIER[0] = tier
    return _units(tier)


def describe(tier):
    return {"rule": "case = one input text executed through the real loads; state = distinct (outcome class, text)",
            "bounds": {"lalr_context_depth": 2 if tier == "quick" else 3, "seeds": len(seeds(tier)), "max_seed_tokens": MAX_SEED_TOKENS, "replacement_lexemes": len(REPLACEMENTS),
                       "soup_alphabet": len(SOUP), "soup_length": 3 if tier == "quick" else 4, "openers": OPENERS, "pump_families": len(pump_families()),
                       "pump_sizes": [BASE_N, BASE_N * 2, BASE_N * 4, BASE_N * 8], "per_execution_horizon_s": HORIZON_S}}


def json_dumps(x):
    import json as _json

    return _json.dumps(x)


def replay(case):
    if "family" in case:
        f = dict(pump_families())[case["family"]]
        a, b = measure(f(case["n"])), measure(f(case["n"] * 8))
        return {"t_N": a, "t_8N": b, "ratio": b / a} if b >= 0.2 and b / a > 24 else None
    text = case["text"]
    if case.get("storm"):
        import subprocess
        import sys as _sys

        try:
            p = subprocess.run([_sys.executable, "-c", CHILD], input=json_dumps(text) + "\n", capture_output=True, text=True, timeout=STORM_TIMEOUT_S + 30)
        except subprocess.TimeoutExpired:
            return {"timeout": True}
        return None if p.stdout.strip() in ("accepted", "rejected") else {"outcome": p.stdout.strip()}
    if "want" in case:
        import mappyfile

        try:
            mappyfile.loads(text)
        except Exception as e:
            return None if [getattr(e, "line", None), getattr(e, "column", None)] == case["want"] else {"got": [getattr(e, "line", None), getattr(e, "column", None)]}
        return {"accepted": True}
    m = re.search(r"(/\S*mcf_c11q_\w+/inc\.map)", text)
    if m and not os.path.exists(m.group(1)):
        # an INCLUDEQ case: the file it names lived in a scratch directory - put it back for the replay
        os.makedirs(os.path.dirname(m.group(1)), exist_ok=True)
        with open(m.group(1), "w", encoding="utf-8") as f:
            f.write('  NAME "included"\n')
    FLAGS[0] = dict(case.get("flags") or {})
    cat, msg = classify(text, bool(INCLUDE_RE.search(text)))
    FLAGS[0] = dict()
    if case.get("must_accept"):
        return None if msg == "accepted" else {"message": msg}
    return {"category": cat, "message": msg} if cat else None
