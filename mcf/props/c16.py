"""C16 - pretty-printer layout contract, read with the independent reader."""
from __future__ import annotations

import copy

from .. import runner as R
from .. import docmodel as D
from .. import optsweep as O
from .. import reader as RD
from .. import impl
from .c01 import strings_of

ID = "C16"
LEVEL_TEXT = ("exhaustive enumeration of (document, option set) pairs: the real printer's output is cut into lines by the independent reader and "
              "every line is checked against the layout contract (line breaks, indentation = depth x indent x spacer, END at opener indentation, "
              "END comment, value alignment column)")
ASSUMPTIONS = ["multi-line string values are excepted from the per-line rule (documents with embedded line breaks are not generated)",
               "per-line rules are vacuous for newlinechar=' ' and skipped there"]
NSHARD = 64


def units(tier):
    return [("DOCS", tier, i) for i in range(NSHARD)]


def check_layout(text, o, nroots=1):
    """None or message"""
    nl = o["newlinechar"]
    unit = o["spacer"] * o["indent"]
    if nl == " ":
        if "\n" in text or "\r" in text:
            return "line break character in output although newlinechar is a space"
        return None
    if nl == "\n" and "\r" in text:
        return "carriage return in output with newlinechar LF"
    if nl == "\r\n":
        stripped = text.replace("\r\n", "")
        if "\n" in stripped or "\r" in stripped:
            return "bare LF or CR in output with newlinechar CRLF"
    roots = RD.structure(text, nl)

    def walk(node, depth):
        exp = unit * depth
        if node.indent != exp:
            return "opener %s at line %d indented %r, expected %r (depth %d)" % (node.name, node.lineno, node.indent, exp, depth)
        if node.end_indent != exp:
            return "END of %s at line %d indented %r, opener %r" % (node.name, node.end_lineno, node.end_indent, exp)
        ec = [c.text for c in node.end_comment]
        if o["end_comment"]:
            if ec != ["# " + node.name]:
                return "END of %s at line %d: expected comment '# %s', found %r" % (node.name, node.end_lineno, node.name, ec)
        elif ec:
            return "END of %s carries a comment %r although end_comment is off" % (node.name, ec)
        cols = []
        for it in node.items:
            if isinstance(it, RD.Node):
                r = walk(it, depth + 1)
                if r:
                    return r
            else:
                e2 = unit * (depth + 1)
                if it.indent != e2:
                    return "line %d (%r) indented %r, expected %r" % (it.lineno, it.raw.strip()[:40], it.indent, e2)
                if node.name not in RD.KV and node.name not in ("PROJECTION", "POINTS", "PATTERN") and it.toks and it.toks[0].cls == "word" \
                        and it.toks[0].text != "CONFIG" and len(it.toks) > 1:
                    cols.append((it.toks[0].text, it.toks[1].col - it.toks[0].col, it.lineno))
        if o["align_values"] and cols:
            step = max(1, o["indent"])
            longest = max(len(k) for k, _, _ in cols)
            want = (longest // step + 1) * step
            for k, c, ln in cols:
                if c != want:
                    return "align_values: value of %s at line %d starts %d columns after the keyword, expected %d (longest keyword %d, indent %d)" % (
                        k, ln, c, want, longest, o["indent"])
        elif cols:
            for k, c, ln in cols:
                if c != len(k) + 1:
                    return "value of %s at line %d not separated by exactly one space" % (k, ln)
        return None

    for r_ in roots:
        m = walk(r_, 0)
        if m:
            return m
    return None


def run_unit(unit):
    res = R.new_result()
    tier, shard = unit[1], unit[2]
    docs = O.documents(tier)
    for label, text in docs[shard::NSHARD]:
        d = O.load_or_none(text, label)
        if d is None:
            R.add_outcome(res, "unparsed")
            continue
        strs = list(strings_of(d))
        if any('"' in s or "'" in s or "\n" in s for s in strs):
            R.add_outcome(res, "excluded_quote_or_multiline")
            continue
        sets = O.option_sets() if (tier == "thorough" or label.startswith("RICH")) else O.corner_sets()
        for o in sets:
            res["evals"] += 1
            try:
                t = impl.dumps(copy.deepcopy(d), **o)
                msg = check_layout(t, o)
            except RD.ReadError as e:
                msg = "output not readable: %s" % e
            except Exception as e:
                R.add_outcome(res, "dumps_exc")
                continue
            if msg is None:
                R.add_outcome(res, "layout_ok")
                res["states"].add(R.h64(t))
            else:
                R.add_outcome(res, "layout_violation")
                kind = msg.split(" ")[0]
                R.add_violation(res, "%s|%s|%s" % (kind, minimal_opts(d, o), label), "layout contract broken: " + msg, {"text": text, "options": o},
                                {"message": msg, "output": t[:600]})
    R.add_sub(res, "documents x option sets", res["evals"])
    if shard == 0 and docs:
        R.add_sample(res, {"document": docs[0][0], "options": O.corner_sets()[7]}, 1)
    return res


def minimal_opts(d, o):
    default = dict(indent=4, spacer=" ", quote='"', newlinechar="\n", end_comment=False, align_values=False, separate_complex_types=False)
    cur = dict(o)
    need = {}
    for k in sorted(o):
        if cur[k] == default[k]:
            continue
        trial = dict(cur)
        trial[k] = default[k]
        try:
            bad = check_layout(impl.dumps(copy.deepcopy(d), **trial), trial) is not None
        except Exception:
            bad = False
        if bad:
            cur = trial
        else:
            need[k] = o[k]
    return ",".join("%s=%r" % kv for kv in sorted(need.items())) or "default"


def describe(tier):
    return {"rule": "case = (document, option set); state = distinct formatted text",
            "bounds": {"documents": len(O.documents(tier)), "option_sets": "720 on rich documents, 120 corner sets elsewhere" if tier == "quick" else "720 everywhere"}}


def replay(case):
    import mappyfile

    d = mappyfile.loads(case["text"], expand_includes=False)
    t = mappyfile.dumps(d, **case["options"])
    msg = check_layout(t, case["options"])
    return {"message": msg, "output": t} if msg else None
