"""C01 - parse -> print -> parse preserves content."""
from __future__ import annotations

from .. import runner as R
from .. import vocab as V
from .. import docmodel as D
from .. import spaces as S
from .. import docprop as P
from .. import corpus
from .. import impl

ID = "C01"
LEVEL_TEXT = ("bounded exhaustive exploration: every document of S1-S4 (+root lists) and every corpus file goes through the real "
              "loads -> dumps -> loads under both output quotes; the two dictionaries must be equal (type- and order-strict) "
              "up to the two differences the property allows, decided with my own schema lookup")
ASSUMPTIONS = [
    "allowed differences decided by mcf/vocab (raw schema files), not by the printer's schema lookup",
    "documents with a string containing the output quote, and corpus objects with keywords unknown to their schema, are outside the guarantee and skipped (counted)",
]


def units(tier):
    us = [("API", tier, i) for i in range(16)]
    files = corpus.files()
    for i in range(16):
        us.append(("S6", i))
    us += S.doc_units(["S1", "S1n", "S2", "S3", "S4", "S5", "ROOT"], tier)
    return us


def enum_words(slot):
    out = set()
    for a in slot.alts:
        if a.kind == "enum":
            out |= {str(w).lower() for w in a.words if isinstance(w, str)}
    return out


def admits_string(slot):
    return any(a.kind in ("string", "pattern", "attribute", "expression", "regex", "hexcolor") for a in slot.alts)


def content_diff(a, b, otype=None, path=""):
    """None if a ~ b under C01's equivalence"""
    if isinstance(a, dict):
        if not isinstance(b, dict):
            return "%s: object became %s" % (path or "/", D.short(b))
        ka = [k for k in a if not D.hidden(k)]
        kb = [k for k in b if not D.hidden(k)]
        if ka != kb:
            return "%s: keys %s became %s" % (path or "/", ka, kb)
        if a.get("__type__") != b.get("__type__"):
            return "%s: __type__ %r became %r" % (path or "/", a.get("__type__"), b.get("__type__"))
        t = a.get("__type__")
        for k in ka:
            sl = V.slot(t, k) if t in V.object_types() else None
            r = value_diff(a[k], b[k], sl, path + "/" + k)
            if r:
                return r
        return None
    return value_diff(a, b, None, path)


def value_diff(a, b, sl, path):
    if isinstance(a, dict):
        return content_diff(a, b, None, path)
    if isinstance(a, (list, tuple)):
        if not isinstance(b, (list, tuple)) or len(a) != len(b):
            return "%s: %s became %s" % (path, D.short(a), D.short(b))
        for i, (x, y) in enumerate(zip(a, b)):
            r = value_diff(x, y, sl, "%s[%d]" % (path, i))
            if r:
                return r
        return None
    if type(a) is type(b) and a == b:
        return None
    if sl is not None:
        if isinstance(a, str) and isinstance(b, str) and a.lower() == b.lower() and a.lower() in enum_words(sl):
            return None
        if isinstance(a, (int, float)) and not isinstance(a, bool) and isinstance(b, str) and b == str(a) and admits_string(sl):
            return None
    return "%s: %s became %s" % (path, D.short(a), D.short(b))


def unknown_keywords(d):
    """keywords not known to the schema of their enclosing object (outside the guarantee)"""
    out = []
    if isinstance(d, list):
        for x in d:
            out += unknown_keywords(x)
        return out
    if isinstance(d, dict):
        t = d.get("__type__")
        known = None
        if t in V.object_types() or t == "symbolset":
            known = {s.key for s in V.slots(t)}
        for k, v in d.items():
            if D.hidden(k):
                continue
            if known is not None and k not in known:
                out.append("%s.%s" % (t, k))
            if isinstance(v, (dict, list)):
                out += unknown_keywords(v)
    return out


def strings_of(d):
    if isinstance(d, dict):
        for k, v in d.items():
            if k == "__type__" or k == "__position__":
                continue
            if isinstance(k, str):
                yield k
            yield from strings_of(v)
    elif isinstance(d, (list, tuple)):
        for v in d:
            yield from strings_of(v)
    elif isinstance(d, str):
        yield d


def roundtrip(text, quote):
    """returns (category, message, d1)"""
    try:
        d1 = impl.loads(text)
    except Exception as e:
        return "unparsed", impl.exc_name(e), None
    if any(quote in s for s in strings_of(d1)):
        return "excluded_quote", None, d1
    try:
        t2 = impl.dumps(d1, quote=quote)
    except Exception as e:
        return "dumps_exc:" + impl.exc_name(e), str(e)[:200], d1
    try:
        d2 = impl.loads(t2)
    except Exception as e:
        return "reparse_exc:" + impl.exc_name(e), (str(e).split("\n")[0] + " | printed: " + t2)[:400], d1
    msg = content_diff(d1, d2)
    if msg:
        return "changed", msg + " | printed: " + t2[:200], d1
    return None, None, d1


def check_tree(res, label, tree):
    text, _ = D.render(tree)
    for quote in ('"', "'"):
        cat, msg, d1 = roundtrip(text, quote)
        res["evals"] += 1
        if cat is None:
            R.add_outcome(res, "preserved")
            res["states"].add(R.h64((quote, D.typed(d1))))
            continue
        if cat in ("unparsed", "excluded_quote"):
            R.add_outcome(res, cat)          # C02/C19 judge acceptance; quote exclusion is documented
            continue
        R.add_outcome(res, cat)

        def pred(t):
            return roundtrip(D.render(t)[0], quote)[0] == cat

        small = P.minimise(tree, pred)
        _, msg2, _ = roundtrip(D.render(small)[0], quote)
        other = '"' if quote == "'" else "'"
        qn = "any" if roundtrip(D.render(small)[0], other)[0] == cat else quote
        sig = "%s|quote=%s|%s" % (cat, qn, P.oneline(small))
        R.add_violation(res, sig, "loads(dumps(loads(t))) differs from loads(t): " + (msg2 or msg or ""),
                        {"tree": D.describe(small), "quote": quote}, {"label": label, "message": msg2 or msg})


def run_unit(unit):
    res = R.new_result()
    if unit[0] == "API":
        return run_api(res, unit[1], unit[2])
    if unit[0] == "S6":
        files = corpus.files()[unit[1]::16]
        for f in files:
            text = corpus.read(f)
            rel = f.replace(R.REPO + "/", "")
            if text is None:
                R.add_skip(res, "corpus file is not UTF-8")
                continue
            for quote in ('"', "'"):
                try:
                    d1 = impl.loads(text)
                except Exception:
                    R.add_outcome(res, "corpus_unparsed")
                    res["evals"] += 1
                    continue
                unk = unknown_keywords(d1)
                cat, msg, d1 = roundtrip(text, quote)
                res["evals"] += 1
                if cat is None:
                    R.add_outcome(res, "preserved")
                    res["states"].add(R.h64((quote, rel)))
                elif cat in ("unparsed", "excluded_quote"):
                    R.add_outcome(res, "corpus_" + cat)
                elif unk:
                    R.add_skip(res, "corpus file with keywords unknown to the schema (outside the guarantee) fails round trip")
                else:
                    R.add_outcome(res, cat)
                    R.add_violation(res, "%s|quote=%s|file=%s" % (cat, quote, rel), "corpus file does not survive loads->dumps->loads: " + (msg or ""),
                                    {"file": rel, "quote": quote}, {"message": msg})
        R.add_sub(res, "S6 corpus", res["evals"])
        if files:
            R.add_sample(res, {"corpus_file": files[0].replace(R.REPO + "/", "")}, 1)
        return res
    n = 0
    for label, tree in S.iter_unit(unit):
        check_tree(res, label, tree)
        n += 1
        if n == 1:
            R.add_sample(res, {"label": label, "text": D.render(tree)[0]}, 1)
    R.add_sub(res, unit[0], res["evals"])
    return res


def run_api(res, tier, shard):
    import mappyfile

    docs = list(S.s4()) + list(S.root_lists())
    for t in V.object_types():
        it = list(S.s1(t))
        docs += it if tier == "thorough" else it[:2]
    for label, tree in docs[shard::16]:
        text, _ = D.render(tree)
        outs = []
        for f_loads, f_dumps in ((mappyfile.loads, mappyfile.dumps), (lambda t: impl.loads(t, expand_includes=True), impl.dumps)):
            try:
                d1 = f_loads(text)
                t2 = f_dumps(d1)
                outs.append(("ok", t2, D.typed(f_loads(t2))))
            except Exception as e:
                outs.append(("exc", type(e).__name__))
        res["evals"] += 1
        if outs[0] != outs[1]:
            R.add_violation(res, "api|" + P.oneline(tree), "public loads/dumps differ from the reused worker objects",
                            {"tree": D.describe(tree), "api": True}, {"public": repr(outs[0])[:300], "workers": repr(outs[1])[:300]})
        else:
            R.add_outcome(res, "api_agrees")
    R.add_sub(res, "API binding", res["evals"])
    return res


def describe(tier):
    return {
        "rule": "a case is (document, output quote); executed as loads -> dumps -> loads on the real code; a state is a distinct first dictionary",
        "bounds": dict(V.summary(), corpus_files=len(corpus.files()), quotes=['"', "'"],
                       spaces="S1 S2 S3(pairs%s) S4 ROOT S6" % (", all-representative pairs, triples" if tier == "thorough" else "")),
    }


def replay(case):
    import mappyfile

    if "file" in case:
        text = corpus.read(R.REPO + "/" + case["file"])
    else:
        text = D.render(D.undescribe(case["tree"]))[0]
    q = case.get("quote", '"')
    d1 = mappyfile.loads(text, expand_includes=False)
    try:
        t2 = mappyfile.dumps(d1, quote=q)
        d2 = mappyfile.loads(t2, expand_includes=False)
    except Exception as e:
        return {"text": text, "exception": repr(e)[:400]}
    msg = content_diff(d1, d2)
    return {"text": text, "printed": t2, "diff": msg} if msg else None
