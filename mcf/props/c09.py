"""C09 - version-aware validation follows minVersion / maxVersion; version history independence."""
from __future__ import annotations

import copy
import itertools
import json

from .. import runner as R
from .. import vocab as V
from .. import docmodel as D
from .. import spaces as S
from .. import schemaeval as SE
from .. import impl
from .c07 import judge, got_names

ID = "C09"
LEVEL_TEXT = ("exhaustive enumeration of every minVersion/maxVersion-annotated schema entry (slot and alternative level) x boundary versions x "
              "every parent context (containment path from every root) on the real Validator against my independently pruned schema; plus all "
              "call histories up to depth 3/4 over validate / schema-export operations on one Validator (differential: every answer equals the fresh-object answer)")
ASSUMPTIONS = [
    "oracle: mcf/schemaeval.prune (recurses through objects and lists) + own Draft-4 evaluator, cross-checked with jsonschema on my schema",
    "exported schema compared after JSON normalisation (json.dumps sort_keys)",
    "a minVersion/maxVersion annotation written next to a $ref counts as an annotation of that keyword / alternative",
]

EPS = 0.1


def annotated_entries():
    """(otype, key, alt_index or None, meta) for every annotated slot / alternative, scanned from the raw schemas"""
    out = []
    for t in V.object_types():
        for s in V.slots(t):
            if s.meta:
                out.append((t, s.key, None, s.meta))
            for i, a in enumerate(s.alts):
                m = {k: v for k, v in a.meta.items() if s.meta.get(k) != v}
                if m:
                    out.append((t, s.key, i, a.meta))
    return out


def versions_for(meta):
    vs = {None}
    lo, hi = meta.get("minVersion"), meta.get("maxVersion")
    for b in (lo, hi):
        if b is not None:
            vs |= {round(b - EPS, 3), b, round(b + EPS, 3)}
    vs |= {6.5}
    return sorted(vs, key=lambda x: (-1 if x is None else x))


def entry_items(t, key, alt_index):
    """item lists that use the entry (one per representative of the alternative(s))"""
    s = V.slot(t, key)
    if s.kind == "simple":
        alts = [s.alts[alt_index]] if alt_index is not None else s.alts
        out = []
        for a in alts:
            if a.kind == "object":
                out.append([D.inline(key, S.min_block(a.child_type, 1))])
                continue
            reps = V.reps_for(s, a, valid_only=True)
            if reps:
                out.append([D.kw(key, reps[0])])
        return out
    st = S.structural_items(t, s)
    return [st[1]] if len(st) > 1 else st


def contexts(t):
    """trees builders: the object type t at the root and at the end of every containment path from every root"""
    ctxs = [("root", None)]
    for path in V.containment_paths():
        if path[-1][2] == t:
            ctxs.append(("/".join([path[0][0]] + [e[1] for e in path]), path))
    return ctxs


def embed(path, inner):
    if path is None:
        return inner
    blk = inner
    for parent, key, ct, how in reversed(path):
        mk = {"child": D.child, "children": D.children, "inline": D.inline}[how]
        items = [mk(key, blk)]
        for r in V.required(parent):
            s = V.slot(parent, r)
            items.insert(0, D.kw(r, V.reps_for(s, s.alts[0], valid_only=True)[0]))
        blk = D.Block(parent, items)
    return blk


def units(tier):
    ents = annotated_entries()
    us = [("ENTRY", i) for i in range(len(ents))]
    us += [("HIST", 3 if tier == "quick" else 4, i) for i in range(len(hist_ops()))]
    us += [("EXPORT",)]
    return us


def run_entry(res, idx):
    t, key, ai, meta = annotated_entries()[idx]
    n = 0
    for items in entry_items(t, key, ai):
        req = []
        for r in V.required(t):
            if r != key:
                s = V.slot(t, r)
                req.append(D.kw(r, V.reps_for(s, s.alts[0], valid_only=True)[0]))
        inner = D.Block(t, req + items)
        for cname, path in contexts(t):
            tree = embed(path, inner)
            text = D.render(tree)[0]
            try:
                d = impl.loads(text)
            except Exception:
                R.add_outcome(res, "unparsed")
                continue
            vers = list(versions_for(meta))
            # a whole-number version is also supplied as a Python int (8 as well as 8.0)
            vers += [int(v) for v in vers if v is not None and float(v).is_integer() and not isinstance(v, int)]
            for ver in vers:
                cat, msg = judge(d, tree.type, ver)
                res["evals"] += 1
                n += 1
                if cat is None:
                    R.add_outcome(res, "agrees")
                    res["states"].add(R.h64((text, ver)))
                elif cat == "oracle_disagreement":
                    R.add_skip(res, "oracle_disagreement (own evaluator vs jsonschema)")
                else:
                    R.add_outcome(res, cat)
                    R.add_violation(res, "%s|%s.%s alt=%s version=%s context=%s" % (cat, t, key, ai, ver, "root" if path is None else "nested"),
                                    "versioned validation disagrees with the pruned schema: " + (msg or ""),
                                    {"text": text, "root": tree.type, "version": ver}, {"entry": [t, key, ai, meta], "context": cname, "message": msg})
    R.add_sub(res, "annotated entries x versions x contexts", n)
    if idx % 20 == 0:
        R.add_sample(res, {"entry": "%s.%s alt=%s" % (t, key, ai), "meta": meta, "versions": versions_for(meta), "contexts": [c for c, _ in contexts(t)][:6]}, 1)


# ------------------------------------------------------------------ histories
HIST_DOCS = [
    'MAP NAME "m" LAYER NAME "l" TYPE POINT ENCODING "utf8" CLASS COLOR 1 2 3 STYLE GAP 2 END END END END',
    'MAP DATAPATTERN "x" WEB LOG "f" END LAYER TYPE LINE OPACITY 50 END END',
]
HIST_VERSIONS = [None, 5.0, 7.6, 8.2]


def hist_ops():
    ops = []
    for di in range(len(HIST_DOCS)):
        for v in HIST_VERSIONS:
            ops.append(("validate", di, v))
    for v in HIST_VERSIONS:
        ops.append(("export", v))
    ops.append(("expanded", None))
    ops.append(("validate_layer", 7.6))
    return ops


def do_op(validator, op, docs):
    if op[0] == "validate":
        return sorted(m["message"] for m in validator.validate(docs[op[1]], version=op[2]))
    if op[0] == "validate_layer":
        return sorted(m["message"] for m in validator.validate(docs[0]["layers"][0], schema_name="layer", version=op[1]))
    if op[0] == "export":
        return R.h64(json.dumps(validator.get_versioned_schema(op[1]), sort_keys=True, indent=0))
    if op[0] == "expanded":
        return R.h64(json.dumps(validator.get_expanded_schema("map"), sort_keys=True, indent=0))
    raise ValueError(op)


_fresh = {}


def fresh_answer(op, docs):
    from mappyfile.validator import Validator

    if op not in _fresh:
        _fresh[op] = do_op(Validator(), op, docs)
    return _fresh[op]


def run_hist(res, depth, first):
    from mappyfile.validator import Validator

    ops = hist_ops()
    docs = [impl.loads(t) for t in HIST_DOCS]
    snap = [D.typed(d) for d in docs]
    for L in range(1, depth + 1):
        for tail in itertools.product(range(len(ops)), repeat=L - 1):
            hist = (first,) + tail
            # mode "single": every call on one Validator; mode "alternating": a second Validator of the same process takes every other call
            for mode in (("single", "alternating") if L >= 3 else ("single",)):
                v = Validator()
                v2 = Validator()
                bad = None
                for step, oi in enumerate(hist):
                    obj = v if (mode == "single" or step % 2 == 0) else v2
                    try:
                        a = do_op(obj, ops[oi], docs)
                    except Exception as e:
                        a = "EXC " + impl.exc_name(e)
                    if a != fresh_answer(ops[oi], docs):
                        bad = (step, ops[oi], a, fresh_answer(ops[oi], docs))
                        break
                res["evals"] += 1
                if [D.typed(d) for d in docs] != snap:
                    bad = bad or ("mutated",)
                    docs = [impl.loads(t) for t in HIST_DOCS]
                if bad:
                    R.add_outcome(res, "history_dependent")
                    names = ["%s" % (ops[i],) for i in hist[: bad[0] + 1]] if bad[0] != "mutated" else ["mutated"]
                    R.add_violation(res, "history|%s|%s" % (mode, ";".join(names)), "answer depends on earlier calls on the same Validator: %r" % (bad,),
                                    {"history": [list(map(str, ops[i])) for i in hist], "mode": mode}, None)
                else:
                    R.add_outcome(res, "history_independent")
                    res["states"].add(R.h64((hist, mode)))
    R.add_sub(res, "call histories depth<=%d over %d operations (single Validator, and alternating between two)" % (depth, len(ops)), res["evals"])
    if first == 0:
        R.add_sample(res, {"history": [list(map(str, ops[i])) for i in hist]}, 1)


def run_export(res):
    """exported versioned schema == my pruned schema, for every root type and every boundary version"""
    from mappyfile.validator import Validator

    bounds = set()
    for _, _, _, meta in annotated_entries():
        for b in (meta.get("minVersion"), meta.get("maxVersion")):
            if b is not None:
                bounds |= {round(b - EPS, 3), b, round(b + EPS, 3)}
    for t in V.object_types():
        for ver in [None] + sorted(bounds):
            v = Validator()
            exported = json.loads(json.dumps(v.get_versioned_schema(ver, t), sort_keys=True, indent=0))
            mine = SE.resolve(t, ver)
            res["evals"] += 1
            if exported != mine:
                R.add_outcome(res, "export_differs")
                R.add_violation(res, "export|%s version=%s" % (t, ver), "exported versioned schema differs from the independently pruned schema: %s" % first_diff(exported, mine),
                                {"schema": t, "version": ver}, None)
            else:
                R.add_outcome(res, "export_equal")
                res["states"].add(R.h64((t, ver)))
            # un-versioned export unchanged by the versioned call on the same object
            after = json.loads(json.dumps(v.get_versioned_schema(None, t), sort_keys=True, indent=0))
            if after != SE.resolve(t, None):
                R.add_violation(res, "export_unversioned_after|%s version=%s" % (t, ver), "un-versioned schema changed by an earlier versioned export", {"schema": t, "version": ver}, None)
    R.add_sub(res, "schema export x root types x boundary versions", res["evals"])


def first_diff(x, y, p=""):
    if type(x) is not type(y):
        return "%s: %s vs %s" % (p, type(x).__name__, type(y).__name__)
    if isinstance(x, dict):
        for k in sorted(set(x) | set(y)):
            if k not in x:
                return "%s/%s only in mine" % (p, k)
            if k not in y:
                return "%s/%s only in export" % (p, k)
            r = first_diff(x[k], y[k], p + "/" + k)
            if r:
                return r
        return None
    if isinstance(x, list):
        if len(x) != len(y):
            return "%s: list length %d vs %d" % (p, len(x), len(y))
        for i, (a, b) in enumerate(zip(x, y)):
            r = first_diff(a, b, "%s[%d]" % (p, i))
            if r:
                return r
        return None
    return None if x == y else "%s: %r vs %r" % (p, x, y)


def run_unit(unit):
    res = R.new_result()
    if unit[0] == "ENTRY":
        run_entry(res, unit[1])
    elif unit[0] == "HIST":
        run_hist(res, unit[1], unit[2])
    else:
        run_export(res)
    return res


def describe(tier):
    return {"rule": "case = (annotated entry, representative, parent context, version) or a call history; state = distinct (document, version) / history",
            "bounds": {"annotated_entries": len(annotated_entries()), "history_depth": 3 if tier == "quick" else 4, "history_operations": len(hist_ops()),
                       "versions_per_entry": "none, each bound -0.1, bound, bound +0.1, 6.5"}}


def replay(case):
    if "text" in case:
        d = impl.loads(case["text"])
        cat, msg = judge(d, case["root"], case["version"])
        return {"category": cat, "message": msg} if cat and cat != "oracle_disagreement" else None
    return None
