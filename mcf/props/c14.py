"""C14 - kept comments are verbatim, never invented or duplicated, and stay attached at the documented sites."""
from __future__ import annotations

import re

import itertools

from .. import runner as R
from .. import vocab as V
from .. import docmodel as D
from .. import spaces as S
from .. import optsweep as O
from .. import reader as RD
from .. import corpus
from .. import impl
from .c13 import strip_bk, content_tokens

ID = "C14"
LEVEL_TEXT = ("bounded exhaustive exploration of comment placements: on every base document (one keyword per line) a uniquely numbered comment of "
              "three kinds is placed at every documented site (end of every simple keyword line, above every object / METADATA / VALIDATION / "
              "CONNECTIONOPTIONS opener) and every other site - all single placements, all pairs (thorough: all triples on the small bases), and the "
              "all-sites-filled variant - then loads(include_comments=True) -> dumps; the output is read by the independent reader")
ASSUMPTIONS = [
    "documented sites as in docs/comments.rst; at other sites only the verbatim / no-duplication / same-content clauses are applied",
    "trailing placement is claimed for '#' comments on non-repeatable single-line keywords; newlinechar LF",
]

KINDS = ["#", "/**/", "2line", "#odd"]


def comment_text(kind, n):
    if kind == "#":
        return "# cmt%03d x" % n
    if kind == "#odd":
        # characters that str.splitlines() treats as line boundaries but that do not end a '#' comment in a Mapfile
        return "# cmt%03d a\x0cb\x1cc\x85d\u2028e\u2029f\x0bg  h\tend" % n
    if kind == "/**/":
        return "/* cmt%03d x */" % n
    return "/* cmt%03d\n   more%03d */" % (n, n)


def bases(tier):
    out = list(O.rich_docs())
    out += [(l, t) for l, t in S.s4() if l.endswith("before_after")][:: (1 if tier == "thorough" else 3)]
    out += [(l, t) for l, t in O.shape_docs()][:: (1 if tier == "thorough" else 4)]
    return [(l, t) for l, t in out if not isinstance(t, list)]


def sites(tree):
    """[(site id, class, token index, how)] ; class 'trail' | 'above' | 'other'"""
    _, toks = D.render(tree)
    out = []
    n = len(toks)
    # statement extents
    for i, t in enumerate(toks):
        if not t.stmt_start:
            continue
        j = i + 1
        while j < n and not toks[j].stmt_start:
            j += 1
        last = j - 1
        if t.role == "key":
            item = item_of(tree, t.ref)
            out.append((len(out), "other", i, "above"))                   # a comment line of its own above the keyword line
            if item[0] == "kw":
                out.append((len(out), "trail", j, "after_stmt"))          # comment goes into the gap before token j
                if last > i + 1:
                    out.append((len(out), "other", i + 2, "inside_values"))
            else:
                out.append((len(out), "other", j, "after_stmt"))          # PROCESSING / CONFIG lines
        elif t.role == "opener":
            item = item_of(tree, t.ref) if t.ref else None
            documented = item is None or item[0] in ("child", "children", "inline") or (item[0] == "kv" and item[1] in ("metadata", "validation", "connectionoptions"))
            out.append((len(out), "above" if documented else "other", i, "above"))
        elif t.role == "end":
            out.append((len(out), "other", j, "after_stmt"))
        elif t.role in ("kvkey",):
            out.append((len(out), "other", i, "above"))
            out.append((len(out), "other", j, "after_stmt"))
    return out, toks


def item_of(tree, ref):
    b = tree
    it = None
    for i in ref:
        it = b.items[i]
        if it[0] in ("child", "children", "inline"):
            b = it[2]
        else:
            break
    return it


def render_with(tree, placements):
    """placements: list of (site, kind, number).  returns (text, [(site, comment text)])"""
    st, toks = None, None
    sts, toks = sites(tree)
    gaps = {}
    src = []
    for (sid, cls, ti, how), kind, num in placements:
        c = comment_text(kind, num)
        src.append(((sid, cls, ti, how), kind, c))
        depth = toks[ti].depth if ti < len(toks) else 0
        ind = D.IND * depth
        if how == "above":
            if ti == 0:
                gaps[0] = gaps.get(0, "") + c + "\n"
            else:
                base = gaps.get(ti, "\n" + ind)
                gaps[ti] = base + c + "\n" + ind
        elif how == "after_stmt":
            if ti >= len(toks):
                gaps["tail"] = gaps.get("tail", "") + " " + c
            else:
                base = gaps.get(ti, "\n" + ind)
                # put the comment at the end of the previous line: before the first line break of the gap
                k = base.index("\n")
                gaps[ti] = base[:k] + " " + c + base[k:]
        else:
            # inside values: a '#' comment runs to the end of the line, so the remaining values go on the next line
            gaps[ti] = " " + c + ("\n" + ind + "    " if kind in ("#", "#odd") else " ")
    tail = gaps.pop("tail", "")
    text, _ = D.render(tree, D.Style(gaps=gaps))
    return text + tail, src, toks


def split_verbatim(token_text, source):
    """decompose an output comment token into source comments (joined by single spaces); None if impossible"""
    # blanks and tabs around a comment are layout; anything else (a stray carriage return, say) is comment text
    norm = {s.strip(" \t"): s for s in source}
    t = token_text.strip(" \t")
    if t in norm:
        return [t]
    keys = sorted(norm, key=len, reverse=True)

    def rec(rest):
        if not rest:
            return []
        for k in keys:
            if rest == k:
                return [k]
            if rest.startswith(k + " "):
                r = rec(rest[len(k) + 1:])
                if r is not None:
                    return [k] + r
        return None

    return rec(t)


def judge(tree, placements):
    """(category, message, text)"""
    text, src, toks = render_with(tree, placements)
    try:
        d = impl.loads(text, include_comments=True)
        plain = impl.loads(text)
    except Exception as e:
        return "unparsed", impl.exc_name(e), text
    try:
        out = impl.dumps(d)
        out_plain = impl.dumps(plain)
    except Exception as e:
        return "dumps_exc", "dumps raises %s" % impl.exc_name(e), text
    source_comments = [c for _, _, c in src]
    try:
        out_toks = RD.lex(out)
    except RD.ReadError as e:
        return "unreadable", "output cannot be read: %s | %s" % (e, out[:200]), text
    used = []
    for t in out_toks:
        if t.cls != "comment":
            continue
        parts = split_verbatim(t.text, source_comments)
        if parts is None:
            return "not_verbatim", "output comment %r is not (a space-joined sequence of) source comments %r" % (t.text, source_comments), text
        used += parts
    for c in set(used):
        if used.count(c) > [s.strip(" \t") for s in source_comments].count(c):
            return "duplicated", "source comment %r is written %d times" % (c, used.count(c)), text
    try:
        a = D.typed(strip_bk(impl.loads(out)))
        b = D.typed(strip_bk(impl.loads(out_plain)))
    except Exception as e:
        return "output_unparsed", "output with comments does not load: %s | %s" % (impl.exc_name(e), out[:300]), text
    if a != b:
        return "content", "output with comments loads to different content than the output without", text
    # attachment at documented sites
    lines, _ = RD.split_lines(out, "\n")
    # a '#' comment inside the values spreads the statement over two lines: its end is then no longer
    # "the end of a line holding a single simple keyword" (not a documented site)
    split_stmts = {id(key_token_before(toks, ti)) for (sid, cls, ti, how), kind, c in src if how == "inside_values" and kind in ("#", "2line", "#odd")}
    for (sid, cls, ti, how), kind, c in src:
        if cls == "trail" and kind in ("#", "#odd"):
            kt = key_token_before(toks, ti)
            if id(kt) in split_stmts:
                continue
            hit = [ln for ln in lines if any(c.strip() in x.text for x in ln.comment)]
            if len(hit) != 1:
                return "trail_lost", "trailing comment %r of keyword %s is written %d times" % (c, kt.text, len(hit)), text
            ln = hit[0]
            if not ln.toks or ln.toks[0].text.upper() != kt.text.upper():
                return "trail_moved", "trailing comment %r of keyword %s is written on line %r" % (c, kt.text, ln.raw.strip()[:80]), text
        elif cls == "above":
            opener = toks[ti]
            order = [t for t in toks if t.role == "opener" and is_documented_opener(tree, t)]
            k = [id(t) for t in order].index(id(opener))
            outs = [ln for ln in lines if len(ln.toks) == 1 and ln.toks[0].cls == "word" and ln.toks[0].text.upper() in DOC_OPENERS]
            if k >= len(outs):
                return "structure", "output has fewer block openers than the source", text
            target = outs[k]
            if target.toks[0].text.upper() != opener.text.upper():
                return "structure", "opener order differs", text
            # the comment lines directly above the opener
            idx = lines.index(target)
            above = []
            j = idx - 1
            while j >= 0 and not lines[j].toks and lines[j].comment:
                above = [x.text for x in lines[j].comment] + above
                j -= 1
            if not any(c.strip().split("\n")[0] in x for x in above):
                where = [ln.raw.strip()[:60] for ln in lines if any(c.strip().split("\n")[0] in x.text for x in ln.comment)]
                return "above_moved", "comment %r above %s is not written directly above that block (found at %r)" % (c, opener.text, where), text
    return None, None, text


DOC_OPENERS = {t.upper() for t in V.object_types()} | {"METADATA", "VALIDATION", "CONNECTIONOPTIONS", "SYMBOLSET"}


def is_documented_opener(tree, t):
    return t.text.upper() in DOC_OPENERS


def key_token_before(toks, ti):
    j = ti - 1
    while j >= 0 and not toks[j].stmt_start:
        j -= 1
    return toks[j]


SCHED_DOCS = [
    'MAP # c-map-1\n  NAME "one" # c-name-1\n  # above-layer-1\n  LAYER\n    TYPE POINT # c-type-1\n  END\nEND',
    '# above-map-2\nMAP\n  NAME "two" # c-name-2\n  WEB # c-web-2\n    IMAGEPATH "/x" # c-path-2\n  END\nEND',
]


def run_sched(res, shard, nshards):
    """the same clauses under threads: two concurrent loads(include_comments=True)+dumps of different documents must each write
    exactly what they write sequentially (pre-emption bounded schedule exploration, shared with C12's scheduler)"""
    import mappyfile

    from .. import modstate, sched

    def body(text):
        return lambda: mappyfile.dumps(mappyfile.loads(text, include_comments=True))

    modstate.restore()
    seq = [("ok", body(t)()) for t in SCHED_DOCS]

    def judge(results):
        for i, (got, want) in enumerate(zip(results, seq)):
            if got != want:
                return "under this schedule thread %d writes comments it does not write sequentially: %r vs %r" % (i, str(got)[:200], str(want)[:200])
        return None

    sched.MAX_PER_LABEL[0] = 1
    out = sched.explore(lambda: [body(t) for t in SCHED_DOCS], "line", 1, judge, shard, nshards)
    res["evals"] += out["executions"]
    for k in out["outcomes"]:
        res["states"].add(R.h64(k))
    R.add_outcome(res, "schedules_same_as_sequential", out["executions"] - len(out["violations"]))
    for choices, msg, labels in out["violations"][:3]:
        R.add_violation(res, "schedule|two commented loads", msg, {"schedule": choices}, None)
    R.add_sub(res, "schedules of two concurrent commented load+dump calls (<=1 pre-emption, line granularity, 1 scheduling point per code line and thread)", out["executions"])


def init_worker():
    from .. import modstate

    modstate.snapshot()


def units(tier):
    nb = len(bases(tier))
    us = [("SCHED", i, 16) for i in range(16)] + [("PAIRS", i, k) for i in range(nb) for k in range(16)] + [("S6", i) for i in range(16)] + [("HAND",)]
    if tier == "thorough":
        us += [("TRIPLES", i) for i in range(nb)]
    return us


def record(res, tree, placements, cat, msg, text, label):
    # minimise: fewest placements that still fail the same way
    pl = list(placements)
    changed = True
    while changed and len(pl) > 1:
        changed = False
        for i in range(len(pl)):
            c = pl[:i] + pl[i + 1:]
            if judge(tree, c)[0] == cat:
                pl, changed = c, True
                break
    _, msg2, text2 = judge(tree, pl)
    desc = ";".join("%s:%s@%s" % (p[0][1], p[1], site_name(tree, p[0])) for p in pl)
    R.add_violation(res, "%s|%s" % (cat, desc), "comment handling: " + (msg2 or msg), {"tree": D.describe(tree), "placements": [[list(p[0]), p[1], p[2]] for p in pl]},
                    {"label": label, "text": text2})


def site_name(tree, site):
    _, toks = D.render(tree)
    sid, cls, ti, how = site
    if how == "above":
        return "above " + toks[ti].text
    if how == "inside_values":
        return "inside values of " + key_token_before(toks, ti).text
    prev = toks[ti - 1] if ti - 1 < len(toks) else toks[-1]
    st = key_token_before(toks, ti) if ti <= len(toks) else toks[-1]
    return "after %s line" % (st.text if st.role != "kvkey" else "pair")


def run_base(res, idx, triples, shard=0):
    label, tree = bases(_TIER[0])[idx]
    sts, toks = sites(tree)
    n = 0
    if not triples:
        combos = []
        for s in sts:
            if s[0] % 16 != shard:
                continue
            for k in KINDS:
                combos.append([(s, k, 1)])
        for a, b in itertools.combinations(sts, 2):
            if a[0] % 16 != shard:
                continue
            for ka, kb in ((("#", "#"), ("/**/", "#"), ("#odd", "2line"), ("#", "/**/")) if _TIER[0] == "quick" else
                           (("#", "#"), ("#", "/**/"), ("/**/", "#"), ("2line", "#"), ("#odd", "#"), ("#odd", "2line"))):
                combos.append([(a, ka, 1), (b, kb, 2)])
        if shard == 0:
            combos.append([(s, KINDS[i % 2], i + 1) for i, s in enumerate(sts)])          # all sites filled
            combos.append([(s, "#", i + 1) for i, s in enumerate(sts) if s[1] != "other"])   # all documented sites
    else:
        if len(sts) > 14:
            return
        combos = [[(a, "#", 1), (b, "/**/", 2), (c, "#", 3)] for a, b, c in itertools.combinations(sts, 3)]
    for pl in combos:
        cat, msg, text = judge(tree, pl)
        res["evals"] += 1
        n += 1
        if cat is None:
            R.add_outcome(res, "comments_ok")
            res["states"].add(R.h64(text))
        elif cat == "unparsed":
            R.add_outcome(res, "source_unparsed(not judged)")
        else:
            R.add_outcome(res, cat)
            record(res, tree, pl, cat, msg, text, label)
    R.add_sub(res, "triples of placements" if triples else "single placements, pairs, all-sites-filled", n)
    if shard == 0:
        R.add_sample(res, {"base": label, "sites": len(sts), "documented_sites": sum(1 for s in sts if s[1] != "other"),
                           "example": render_with(tree, [(s, "#", i + 1) for i, s in enumerate(sts[:4])])[0]}, 1)


TRAIL_RE = re.compile(r'^[ \t]*([A-Za-z_]+)[ \t]+("[^"\n]*"|\'[^\'\n]*\'|[^\s#"\']+)[ \t]+(#[^\n]*?)\r?$', re.M)


def judge_text(text, opts=None, trailing=False):
    """text-level oracle: (category, message, number of source comments).  Every comment token of dumps(loads(text, comments)) is made of
    source comments, none more often than in the source, the output loads to the content of the comment-free output; with trailing=True
    every source line 'KEYWORD value # comment' must come back as a line that starts with KEYWORD and ends with that comment"""
    opts = opts or {}
    try:
        d = impl.loads(text, include_comments=True)
        plain = impl.loads(text)
        out = impl.dumps(d, **opts)
        out_plain = impl.dumps(plain, **opts)
    except Exception:
        return "unparsed", None, 0
    try:
        src = [t.text for t in RD.lex(text) if t.cls == "comment"]
        outc = [t.text for t in RD.lex(out) if t.cls == "comment"]
    except RD.ReadError:
        return "unreadable", None, 0
    used = []
    for t in outc:
        parts = split_verbatim(t, src)
        if parts is None:
            return "not_verbatim", "output comment %r is not made of source comments" % t[:100], len(src)
        used += parts
    stripped = [c.strip(" \t") for c in src]
    for c in set(used):
        if used.count(c) > stripped.count(c):
            return "duplicated", "comment %r occurs %d times in the source and %d times in the output" % (c[:80], stripped.count(c), used.count(c)), len(src)
    try:
        if D.typed(strip_bk(impl.loads(out))) != D.typed(strip_bk(impl.loads(out_plain))):
            return "content", "output with comments loads to different content", len(src)
    except Exception as e:
        return "output_unparsed", "output with comments does not load: %s" % impl.exc_name(e), len(src)
    if trailing:
        nl = opts.get("newlinechar", "\n")
        out_lines = [ln.strip() for ln in out.split(nl)]
        for m in TRAIL_RE.finditer(text):
            key, comment = m.group(1).upper(), m.group(3).strip()
            if key in ("END",) or key in DOC_OPENERS:
                continue
            if not any(ln.upper().startswith(key + " ") and ln.endswith(comment) for ln in out_lines):
                return "trail_lost", "the comment %r at the end of the %s line is not at the end of that keyword's line in the output" % (comment, key), len(src)
    return None, None, len(src)


HAND_TEXTS = [
    ("bare values ending in END", 'LAYER\n  NAME backend # c1\n  GROUP weekend # c2\n  TYPE POINT # c3\n  CLASSITEM Legend # c4\n  DATA "the end" # c5\nEND # c6\n'),
    ("root METADATA", '# above 1\n/* above 2 */\nMETADATA\n  "a" "b" # t1\n  # own line\n  "c" "d"\nEND\n'),
    ("root VALIDATION", '# above v\nVALIDATION\n  "k" "^v$" # t\nEND # e\n'),
    ("root CONNECTIONOPTIONS", '/* above\n   two lines */\nCONNECTIONOPTIONS\n  "k" "v"\nEND\n'),
    ("nested kv blocks", 'LAYER\n  TYPE POINT\n  # m1\n  # m2\n  METADATA\n    "a" "b"\n  END\n  /* v */\n  VALIDATION\n    "k" "v"\n  END\n  # c\n  CONNECTIONOPTIONS\n    "o" "p"\n  END\nEND\n'),
    ("multi-line comment above nested blocks", 'MAP\n  NAME "m" # n\n  /* first\n     second\n       third */\n  LAYER\n    TYPE POINT\n    /* a\n    b */\n    CLASS\n      NAME "c" # cn\n    END\n  END\nEND\n'),
    ("two comments on one line", 'LAYER\n  /* a */ # b\n  NAME "l" /* c */\n  TYPE POINT /* d */ # e\n  /* f */ /* g */\n  GROUP "g" # h\nEND\n'),
    ("two comments on one line, multi-line", 'CLASS\n  /* a */ # b\n  NAME "c" /* c1\n   c2 */\n  TITLE "t"\nEND\n'),
    ("values ending in keywords", 'CLASS\n  NAME "x END" # q\n  TITLE legend # r\n  GROUP blend # s\nEND\n'),
]


def run_hand(res):
    """hand-written documents (root key-value blocks, bare values that end in END, multi-line comments above nested blocks), LF and CRLF,
    default options / other indents / CRLF output"""
    optsets = [{}, {"indent": 2}, {"indent": 0}, {"newlinechar": "\r\n"}, {"indent": 1, "spacer": "\t", "end_comment": False}]
    for label, text in HAND_TEXTS:
        for crlf in (False, True):
            t = text.replace("\n", "\r\n") if crlf else text
            for o in optsets:
                cat, msg, _ = judge_text(t, o, trailing=True)
                res["evals"] += 1
                if cat is None:
                    R.add_outcome(res, "comments_ok")
                    res["states"].add(R.h64((label, crlf, str(o))))
                elif cat in ("unparsed", "unreadable"):
                    R.add_outcome(res, "hand_" + cat)
                    R.add_violation(res, "hand_%s|%s" % (cat, label), "hand-written document is not loaded / read", {"text": t, "opts": o}, None)
                else:
                    R.add_outcome(res, cat)
                    R.add_violation(res, "%s|hand|%s|%s" % (cat, label, "crlf" if crlf else "lf"), "%s (options %r)" % (msg, o), {"text": t, "opts": o}, None)
    R.add_sub(res, "hand-written commented documents x line endings x option sets", res["evals"])


def run_corpus(res, shard):
    total_comments = 0
    for f in corpus.files()[shard::16]:
        text = corpus.read(f)
        if text is None:
            continue
        rel = f.replace(R.REPO + "/", "")
        cat, msg, ncomments = judge_text(text)
        if cat == "unparsed":
            R.add_outcome(res, "corpus_unparsed")
            continue
        if cat == "unreadable":
            R.add_skip(res, "corpus file not readable by the independent lexer")
            continue
        total_comments += ncomments
        res["evals"] += 1
        if cat is None:
            R.add_outcome(res, "comments_ok")
            res["states"].add(R.h64(rel))
        else:
            R.add_outcome(res, cat)
            R.add_violation(res, "%s|file=%s" % (cat, rel), "corpus file: " + msg, {"file": rel}, None)
    R.add_sub(res, "corpus files with their own comments (%d comments in this shard)" % total_comments, res["evals"])


def run_unit(unit):
    res = R.new_result()
    if unit[0] == "SCHED":
        run_sched(res, unit[1], unit[2])
    elif unit[0] == "S6":
        run_corpus(res, unit[1])
    elif unit[0] == "HAND":
        run_hand(res)
    else:
        run_base(res, unit[1], unit[0] == "TRIPLES", unit[2] if len(unit) > 2 else 0)
    return res


_TIER = ["quick"]
_units = units


def units(tier):  # noqa: F811
    _TIER[0] = tier
    return _units(tier)


def describe(tier):
    return {"rule": "case = (base document, set of uniquely numbered comment placements); state = distinct source text",
            "bounds": {"bases": len(bases(tier)), "comment_kinds": KINDS, "placements": "all singles x 4 kinds, all pairs x %d kind combinations, all-filled" % (3 if tier == "quick" else 6)
                       + (", all triples on bases with <= 14 sites" if tier == "thorough" else ""), "corpus_files": len(corpus.files())}}


def replay(case):
    if "opts" in case and "text" in case:
        cat, msg, _ = judge_text(case["text"], case["opts"], trailing=True)
        return {"category": cat, "message": msg} if cat else None
    if "file" in case:
        return None
    tree = D.undescribe(case["tree"])
    pl = [((p[0][0], p[0][1], p[0][2], p[0][3]), p[1], p[2]) for p in case["placements"]]
    cat, msg, text = judge(tree, pl)
    return {"category": cat, "message": msg, "text": text} if cat and cat != "unparsed" else None
