"""C02 - loads follows the documented text->dict contract.

Every document of the bounded spaces S1-S4 (+root lists) is written by the independent renderer and parsed
by the real Parser+MapfileToDict; the result must equal (type-strict, order-aware) the dictionary my own
statement of the contract derives from the intended structure."""
from __future__ import annotations

from .. import runner as R
from .. import vocab as V
from .. import docmodel as D
from .. import spaces as S
from .. import docprop as P
from .. import impl

ID = "C02"
LEVEL_TEXT = ("bounded exhaustive exploration of the real parser+transformer over the schema-derived document automaton "
              "(every slot x alternative x representative, positions, all ordered pairs/triples of keyword lines, every "
              "containment path) against an independent statement of the text->dict contract")
ASSUMPTIONS = [
    "the expected dictionary is computed by mcf/docmodel.expected from the intended structure (own code, no mappyfile import)",
    "pair as tuple or list not distinguished; a keyword given twice may sit at its first or last position",
    "documents of shapes S1-S4, nesting <= 6, <= 3 adjacent keyword lines; values from the representative alphabet",
]

UNIFORM_STYLES = [
    ("canonical", {}),
    ("lower", {"kwcase": "lower"}),
    ("squote", {"quote": "'"}),
    ("bare", {"bare": True}),
    ("crlf", {"newline": "\r\n"}),
    ("oneline", {"oneline": True}),
]


def units(tier):
    us = S.doc_units(["S1", "S1n", "S2", "S3", "S4", "S5", "ROOT"], tier)
    us = [("API", tier, i) for i in range(16)] + us     # slow units first
    return us


def has_quote(tree, q):
    text, toks = D.render(tree)
    return any(t.kind in ("str", "hex") and q in (t.raw or "") for t in toks)


def judge(tree, style_kw=None):
    """returns (category, message, got) ; category None when the contract holds"""
    style = D.Style(**(style_kw or {}))
    text, _ = D.render(tree, style)
    try:
        got = impl.loads(text)
    except Exception as e:
        return "exc:" + impl.exc_name(e), str(e)[:300], None
    exp = D.expected(tree)
    dups = set()
    if not isinstance(tree, list):
        for _, b in P.sub_blocks(tree):
            dups |= D.dup_keys(b)
    msg = D.strict_diff(exp, got, dup_ok=dups)
    if msg:
        return "diff:" + P.diff_kind(msg), msg, got
    return None, None, got


def scribble(d):
    """edit every mutable part of a returned dictionary in place"""
    if isinstance(d, dict):
        for k, v in list(d.items()):
            scribble(v)
        d["zz_scribbled"] = "by the caller"
    elif isinstance(d, list):
        for v in d:
            scribble(v)
        d.append("scribbled")
        if d:
            d[0] = "scribbled" if not isinstance(d[0], (dict, list)) else d[0]


def check(res, label, tree, style_name="canonical", style_kw=None):
    cat, msg, got = judge(tree, style_kw)
    res["evals"] += 1
    if cat is None:
        R.add_outcome(res, "conforms")
        res["states"].add(R.h64(D.typed(got)))
        scribble(got)       # the returned dictionary is the caller's: editing it in place must not show up in any later result
        return True
    R.add_outcome(res, cat)

    def pred(t):
        return judge(t, style_kw)[0] == cat

    small = P.minimise(tree, pred)
    cat2, msg2, _ = judge(small, style_kw)
    if style_name != "canonical" and judge(small)[0] == cat:
        style_name, style_kw = "canonical", None       # not specific to the surface style
    sig = "%s|%s|%s" % (cat, style_name, P.oneline(small))
    R.add_violation(res, sig, "loads result differs from the documented text->dict contract: " + (msg2 or msg or "").split("\n")[0],
                    {"tree": D.describe(small), "style": style_kw or {}, "style_name": style_name},
                    {"label": label, "message": msg2 or msg, "text": D.render(small, D.Style(**(style_kw or {})))[0]})
    return False


def run_unit(unit):
    res = R.new_result()
    if unit[0] == "API":
        return run_api(res, unit[1], unit[2])
    n = 0
    for label, tree in S.iter_unit(unit):
        n += 1
        check(res, label, tree)
        if unit[0] in ("S1", "S4", "ROOT"):
            for sname, skw in UNIFORM_STYLES[1:]:
                if sname == "squote" and has_quote(tree, "'"):
                    continue
                check(res, label, tree, sname, skw)
        if n == 1:
            R.add_sample(res, {"label": label, "text": D.render(tree)[0], "expected": D.expected(tree)}, 1)
    R.add_sub(res, unit[0], res["evals"])
    return res


def run_api(res, tier, shard):
    """public-API binding pass: mappyfile.loads on fresh objects must give what the reused workers give"""
    import mappyfile

    docs = list(S.s4()) + list(S.root_lists())
    for t in V.object_types():
        it = list(S.s1(t))
        docs += it if tier == "thorough" else it[:3]
    for label, tree in docs[shard::16]:
        text, _ = D.render(tree)
        try:
            a = ("ok", D.typed(mappyfile.loads(text)))
        except Exception as e:
            a = ("exc", type(e).__name__)
        try:
            b = ("ok", D.typed(impl.loads(text, expand_includes=True)))
        except Exception as e:
            b = ("exc", type(e).__name__)
        res["evals"] += 1
        if a != b:
            R.add_violation(res, "api|" + P.oneline(tree), "mappyfile.loads differs from Parser.parse+MapfileToDict.transform on reused objects",
                            {"tree": D.describe(tree), "api": True}, {"public": repr(a)[:300], "workers": repr(b)[:300]})
        else:
            R.add_outcome(res, "api_agrees")
    R.add_sub(res, "API binding", res["evals"])
    return res


def describe(tier):
    return {
        "rule": "a case is a document of the schema-derived automaton rendered by the independent renderer; a state is a distinct "
                "type-strict dictionary returned by the implementation; every case is judged against the independently computed expected dictionary",
        "bounds": dict(V.summary(), spaces="S1 S2 S3(pairs%s) S4 ROOT" % (", all-representative pairs, triples" if tier == "thorough" else ""),
                       uniform_styles=[s for s, _ in UNIFORM_STYLES]),
    }


def replay(case):
    import mappyfile

    tree = D.undescribe(case["tree"])
    text, _ = D.render(tree, D.Style(**case.get("style", {})))
    try:
        got = mappyfile.loads(text)
    except Exception as e:
        return {"text": text, "exception": repr(e)[:500]}
    if case.get("api"):
        return None
    msg = D.strict_diff(D.expected(tree), got, dup_ok={k for _, b in P.sub_blocks(tree) for k in D.dup_keys(b)} if not isinstance(tree, list) else set())
    if msg:
        return {"text": text, "diff": msg}
    return None
