"""C15 - INCLUDE expansion equals textual substitution, bounded at 5 levels."""
from __future__ import annotations

import itertools
import os
import shutil
import tempfile

from .. import runner as R
from .. import docmodel as D
from .. import impl

ID = "C15"
LEVEL_TEXT = ("exhaustive enumeration of all rooted ordered include trees with <= 5 files (every node cut as a whole block or as keyword lines), "
              "chains of depth 0..7, self and mutual cycles, missing files x path styles x line endings x entry points (open, load, loads) on real "
              "files in a scratch tree; the result must equal loads of the text flattened by my own substituter")
ASSUMPTIONS = ["INCLUDE directives on their own line, outside strings and comments", "scratch files live under a temporary directory outside /repo and /verif"]

CONTEXT_CHILD = {"map": "layer", "layer": "class", "class": "label", "label": "style"}
LINE_KW = {"map": "SHAPEPATH", "layer": "DATA", "class": "TITLE", "label": "FONT", "style": "RANGEITEM"}
EXTRA_KW = {"map": "", "layer": "TYPE POINT", "class": "", "label": "", "style": ""}


def tree_shapes(n):
    """all rooted ordered trees with n nodes as nested tuples of children"""
    if n == 1:
        yield ()
        return
    # partitions of n-1 nodes into an ordered forest
    def forests(m):
        if m == 0:
            yield ()
            return
        for k in range(1, m + 1):
            for first in tree_shapes(k):
                for rest in forests(m - k):
                    yield (first,) + rest

    yield from forests(n - 1)


def count_nodes(shape):
    return 1 + sum(count_nodes(c) for c in shape)


PATH_STYLES = [
    dict(name="relative dq", q='"', absolute=False, sub=False, kw="INCLUDE", trail=""),
    dict(name="relative sq", q="'", absolute=False, sub=False, kw="INCLUDE", trail=""),
    dict(name="relative bare", q="", absolute=False, sub=False, kw="INCLUDE", trail=""),
    dict(name="absolute dq", q='"', absolute=True, sub=False, kw="INCLUDE", trail=""),
    dict(name="subdir dq", q='"', absolute=False, sub=True, kw="INCLUDE", trail=""),
    dict(name="lower kw + comment", q='"', absolute=False, sub=False, kw="include", trail=" # included here"),
    dict(name="mixed kw + sq + subdir + comment", q="'", absolute=False, sub=True, kw="Include", trail="   # c"),
    dict(name="absolute subdir bare", q="", absolute=True, sub=True, kw="INCLUDE", trail=""),
    dict(name="tab separator", q='"', absolute=False, sub=False, kw="INCLUDE", trail="", sep="\t"),
    dict(name="tabs and spaces + sq", q="'", absolute=False, sub=True, kw="include", trail="\t# c", sep=" \t  "),
]


class Files:
    """a set of files for one include tree"""

    def __init__(self, root_dir, style, nl):
        self.root_dir = root_dir
        self.style = style
        self.nl = nl
        self.files = {}      # relative path -> text
        self.n = 0

    def new_name(self):
        self.n += 1
        return ("sub/d%d/" % (self.n % 2) if self.style["sub"] else "") + "f%d.map" % self.n

    def ref(self, rel):
        p = os.path.join(self.root_dir, rel) if self.style["absolute"] else rel
        st = self.style
        return "%s%s%s%s%s%s" % (st["kw"], st.get("sep", " "), st["q"], p, st["q"], st["trail"])

    def write(self):
        for rel, text in self.files.items():
            p = os.path.join(self.root_dir, rel)
            os.makedirs(os.path.dirname(p), exist_ok=True)
            with open(p, "w", encoding="utf-8", newline="") as f:
                f.write(text)


def build(files, shape, kinds, context="map", is_root=True, ident=[0]):
    """returns (lines of this file with INCLUDE directives, flattened lines)"""
    me = ident[0]
    ident[0] += 1
    lines, flat = [], []
    if not is_root and kinds[me - 1] in ("empty", "blank"):
        # an include file without content (or only white space / a comment); its own children are not reachable
        for child in shape:
            skip_ids(child, ident)
        return ([] if kinds[me - 1] == "empty" else ["  ", "# nothing here", ""]), []
    if is_root:
        opener, ctx = "MAP", "map"
    else:
        kind = kinds[me - 1]
        child_type = CONTEXT_CHILD.get(context)
        if kind == "block" and child_type:
            opener, ctx = child_type.upper(), child_type
        else:
            opener, ctx = None, context
    if opener:
        lines.append(opener)
        flat.append(opener)
        kwline = '  NAME "n%d"' % me if ctx in ("map", "layer", "class") else '  %s "n%d"' % (LINE_KW[ctx], me)
        lines.append(kwline)
        flat.append(kwline)
        if EXTRA_KW[ctx]:
            lines.append("  " + EXTRA_KW[ctx])
            flat.append("  " + EXTRA_KW[ctx])
    else:
        kwline = '  %s "v%d"' % (LINE_KW[ctx], me)
        lines.append(kwline)
        flat.append(kwline)
    for ci, child in enumerate(shape):
        rel = files.new_name()
        clines, cflat = build(files, child, kinds, ctx, False, ident)
        files.files[rel] = files.nl.join(clines) + files.nl
        lines.append("  " + files.ref(rel))
        flat.extend(cflat)
        if ci % 2 == 0:
            # a keyword line between includes
            between = '  %s "b%d_%d"' % ("IMAGETYPE" if ctx == "map" else LINE_KW[ctx] if ctx != "layer" else "GROUP", me, ci)
            lines.append(between)
            flat.append(between)
    if opener:
        lines.append("END")
        flat.append("END")
    return lines, flat


def skip_ids(shape, ident):
    ident[0] += 1
    for c in shape:
        skip_ids(c, ident)


def entries():
    return ["open", "open_relative", "load", "load_relative", "loads_cwd_root", "workers"]


def run_entry(entry, root_path, root_text, root_dir, elsewhere, public):
    """returns ('ok', typed dict) or ('exc', type name)"""
    import mappyfile

    cwd = os.getcwd()
    try:
        if entry == "open":
            os.chdir(elsewhere)
            d = mappyfile.open(root_path) if public else impl.open_(root_path)
        elif entry == "open_relative":
            os.chdir(root_dir)
            d = mappyfile.open("root.map") if public else impl.open_("root.map")
        elif entry == "load_relative":
            os.chdir(root_dir)
            with open("root.map", encoding="utf-8", newline="") as fp:
                d = mappyfile.load(fp) if public else impl.load_(fp)
        elif entry == "load":
            os.chdir(elsewhere)
            with open(root_path, encoding="utf-8", newline="") as fp:
                d = mappyfile.load(fp) if public else impl.load_(fp)
        elif entry == "loads_cwd_root":
            os.chdir(root_dir)
            d = mappyfile.loads(root_text) if public else impl.loads(root_text, expand_includes=True)
        else:
            os.chdir(elsewhere)
            d = impl.todict().transform(impl.parser(True, False).parse(root_text, fn=root_path))
        return ("ok", D.typed(d))
    except Exception as e:
        return ("exc", type(e).__name__, isinstance(e, OSError))
    finally:
        os.chdir(cwd)


def units(tier):
    us = [("TREES", n, si) for n in range(1, 6) for si in range(len(PATH_STYLES))]
    us += [("CHAINS",), ("CYCLES",), ("MISSING",), ("NOEXPAND",), ("API",), ("SHARED",), ("NOISE",), ("SYMLINK",), ("ODDNAMES",)]
    return us


def with_scratch(fn):
    tmp = tempfile.mkdtemp(prefix="mcf_c15_")
    try:
        root_dir = os.path.join(tmp, "rootdir")
        elsewhere = os.path.join(tmp, "elsewhere")
        os.makedirs(root_dir)
        os.makedirs(elsewhere)
        return fn(root_dir, elsewhere)
    finally:
        shutil.rmtree(tmp, ignore_errors=True)


def clean_dir(d):
    for name in os.listdir(d):
        p = os.path.join(d, name)
        if os.path.isdir(p):
            shutil.rmtree(p)
        else:
            os.remove(p)


def run_trees(res, n, si, public=False, limit=None):
    style = PATH_STYLES[si]

    def body(root_dir0, elsewhere):
        count = 0
        root_dir1 = os.path.join(os.path.dirname(root_dir0), "rootdir2")
        os.makedirs(root_dir1, exist_ok=True)
        kind_alphabet = ("block", "lines", "empty", "blank") if n <= 4 else ("block", "lines", "empty")
        for shape in tree_shapes(n):
            for kinds in itertools.product(kind_alphabet, repeat=n - 1):
                for nl in ("\n", "\r\n"):
                    if limit and count >= limit:
                        return
                    count += 1
                    # two root directories used alternately: the same relative names, different (stale) content in the other one
                    root_dir = (root_dir0, root_dir1)[count % 2]
                    clean_dir(root_dir)
                    files = Files(root_dir, style, nl)
                    lines, flat = build(files, shape, kinds, ident=[0])
                    root_text = nl.join(lines) + nl
                    files.files["root.map"] = root_text
                    files.write()
                    root_path = os.path.join(root_dir, "root.map")
                    try:
                        want = ("ok", D.typed(impl.loads(nl.join(flat) + nl, expand_includes=False)))
                    except Exception as e:
                        R.add_skip(res, "flattened text not accepted (%s)" % impl.exc_name(e))
                        continue
                    for entry in entries():
                        got = run_entry(entry, root_path, root_text, root_dir, elsewhere, public)
                        res["evals"] += 1
                        if got == want:
                            R.add_outcome(res, "equals_substitution")
                            res["states"].add(R.h64((want, entry)))
                        else:
                            R.add_outcome(res, "differs")
                            R.add_violation(res, "include|%s|%s|nl=%r|shape=%r kinds=%r" % (entry, style["name"], nl, shape, kinds),
                                            "INCLUDE expansion differs from textual substitution: %s" % (str(got)[:200],),
                                            {"files": dict(files.files), "entry": entry, "flat": nl.join(flat) + nl}, None)
        return None

    with_scratch(body)
    R.add_sub(res, "include trees with %d files x kinds x line endings x entries" % n, res["evals"])
    if si == 0:
        R.add_sample(res, {"files": n, "style": style["name"], "shapes": [repr(s) for s in list(tree_shapes(n))[:3]]}, 1)


def chain_files(files, depth, cyclic_to=None):
    """root includes f1 includes f2 ... (keyword-line files)"""
    names = [files.new_name() for _ in range(depth)]
    flat = ["MAP", '  NAME "r"']
    root = ["MAP", '  NAME "r"']
    if depth:
        root.append("  " + files.ref(names[0]))
    for i, nme in enumerate(names):
        body = ['  SHAPEPATH "s%d"' % i]
        flat.append(body[0])
        if i + 1 < depth:
            body.append("  " + files.ref(names[i + 1]))
        elif cyclic_to is not None:
            body.append("  " + files.ref(names[cyclic_to] if cyclic_to >= 0 else "root.map"))
        files.files[nme] = files.nl.join(body) + files.nl
    root.append("END")
    flat.append("END")
    return root, flat


def run_chains(res):
    def body(root_dir, elsewhere):
        for depth in range(0, 8):
            for style in PATH_STYLES[:5]:
                for nl in ("\n", "\r\n"):
                    clean_dir(root_dir)
                    files = Files(root_dir, style, nl)
                    root, flat = chain_files(files, depth)
                    root_text = nl.join(root) + nl
                    files.files["root.map"] = root_text
                    files.write()
                    root_path = os.path.join(root_dir, "root.map")
                    for entry in entries():
                        got = run_entry(entry, root_path, root_text, root_dir, elsewhere, False)
                        res["evals"] += 1
                        if depth <= 5:
                            want = ("ok", D.typed(impl.loads(nl.join(flat) + nl, expand_includes=False)))
                            ok = got == want
                            why = "nesting %d files deep must be expanded" % depth
                        else:
                            ok = got[0] == "exc"
                            why = "nesting %d files deep must raise an error" % depth
                        if ok:
                            R.add_outcome(res, "depth_boundary_ok")
                            res["states"].add(R.h64((depth, entry, style["name"], nl)))
                        else:
                            R.add_outcome(res, "depth_boundary_wrong")
                            R.add_violation(res, "depth|%d|%s" % (depth, entry), "%s; got %s" % (why, str(got)[:120]),
                                            {"files": dict(files.files), "entry": entry, "depth": depth}, None)

    with_scratch(body)
    R.add_sub(res, "include chains depth 0..7", res["evals"])


def run_cycles(res):
    def body(root_dir, elsewhere):
        for depth, back in ((1, 0), (2, 0), (2, 1), (3, 0), (1, -1), (3, -1)):
            for style in PATH_STYLES[:4]:
                clean_dir(root_dir)
                files = Files(root_dir, style, "\n")
                root, flat = chain_files(files, depth, cyclic_to=back)
                root_text = "\n".join(root) + "\n"
                files.files["root.map"] = root_text
                files.write()
                for entry in entries():
                    got = run_entry(entry, os.path.join(root_dir, "root.map"), root_text, root_dir, elsewhere, False)
                    res["evals"] += 1
                    if got[0] == "exc" and got[1] != "RecursionError":
                        R.add_outcome(res, "cycle_rejected")
                        res["states"].add(R.h64((depth, back, entry, style["name"])))
                    else:
                        R.add_violation(res, "cycle|%d->%d|%s" % (depth, back, entry), "cyclic inclusion must raise an error (not recurse forever); got %s" % (str(got)[:100],),
                                        {"files": dict(files.files), "entry": entry}, None)

    with_scratch(body)
    R.add_sub(res, "cyclic includes", res["evals"])


def run_missing(res):
    def body(root_dir, elsewhere):
        for style in PATH_STYLES:
            files = Files(root_dir, style, "\n")
            root_text = "\n".join(["MAP", "  " + files.ref("no_such_file.map"), "END"]) + "\n"
            with open(os.path.join(root_dir, "root.map"), "w", encoding="utf-8") as f:
                f.write(root_text)
            for entry in entries():
                got = run_entry(entry, os.path.join(root_dir, "root.map"), root_text, root_dir, elsewhere, False)
                res["evals"] += 1
                if got[0] == "exc" and got[2]:
                    R.add_outcome(res, "missing_file_ioerror")
                    res["states"].add(R.h64((style["name"], entry)))
                else:
                    R.add_violation(res, "missing|%s|%s" % (style["name"], entry), "a missing include file must raise an I/O error; got %s" % (str(got)[:100],),
                                    {"root": root_text, "entry": entry}, None)

    with_scratch(body)
    R.add_sub(res, "missing include file", res["evals"])


def run_shared(res):
    """acyclic trees in which one file is referenced more than once: twice by siblings, a diamond, the same file at two depths"""
    def body(root_dir, elsewhere):
        for style in PATH_STYLES:
            for nl in ("\n", "\r\n"):
                for shape in ("siblings", "diamond", "two_depths", "thrice", "shallow_then_deep", "name_collision"):
                    clean_dir(root_dir)
                    files = Files(root_dir, style, nl)
                    common, a, b = files.new_name(), files.new_name(), files.new_name()
                    common_lines = ['  SHAPEPATH "shared"']
                    files.files[common] = nl.join(common_lines) + nl
                    if shape == "siblings":
                        root = ["MAP", '  NAME "r"', "  " + files.ref(common), '  IMAGETYPE "x"', "  " + files.ref(common), "END"]
                        flat = ["MAP", '  NAME "r"'] + common_lines + ['  IMAGETYPE "x"'] + common_lines + ["END"]
                    elif shape == "thrice":
                        root = ["MAP"] + ["  " + files.ref(common)] * 3 + ["END"]
                        flat = ["MAP"] + common_lines * 3 + ["END"]
                    elif shape == "diamond":
                        files.files[a] = nl.join(['  FONTSET "a"', "  " + files.ref(common)]) + nl
                        files.files[b] = nl.join(["  " + files.ref(common), '  SYMBOLSET "b"']) + nl
                        root = ["MAP", "  " + files.ref(a), "  " + files.ref(b), "END"]
                        flat = ["MAP", '  FONTSET "a"'] + common_lines + common_lines + ['  SYMBOLSET "b"', "END"]
                    elif shape == "shallow_then_deep":
                        # 'common' has a sub-chain of two files; it is included at level 1 and again at level 4:
                        # the second time its sub-chain reaches level 6, which must raise
                        s1, s2, c1, c2 = files.new_name(), files.new_name(), files.new_name(), files.new_name()
                        files.files[s2] = '  FONTSET "s2"' + nl
                        files.files[s1] = "  " + files.ref(s2) + nl
                        files.files[common] = nl.join(common_lines + ["  " + files.ref(s1)]) + nl
                        files.files[c2] = "  " + files.ref(common) + nl
                        files.files[c1] = "  " + files.ref(c2) + nl
                        files.files[b] = "  " + files.ref(c1) + nl
                        root = ["MAP", "  " + files.ref(common), "  " + files.ref(b), "END"]
                        flat = None
                    elif shape == "name_collision":
                        # the same relative name next to the including file and next to the root: the root's directory decides
                        files.files["style.map"] = '  SHAPEPATH "root style"' + nl
                        files.files["layers/style.map"] = '  SHAPEPATH "layers style"' + nl
                        inner = "%s%s%s%s%s" % (style["kw"], style.get("sep", " "), style["q"], "style.map", style["q"])
                        files.files["layers/l.map"] = nl.join(['  FONTSET "l"', "  " + inner]) + nl
                        root = ["MAP", "  " + files.ref("layers/l.map"), "END"]
                        flat = ["MAP", '  FONTSET "l"', '  SHAPEPATH "root style"', "END"]
                    else:
                        files.files[a] = nl.join(["  " + files.ref(common), '  FONTSET "a"']) + nl
                        root = ["MAP", "  " + files.ref(common), "  " + files.ref(a), "END"]
                        flat = ["MAP"] + common_lines + common_lines + ['  FONTSET "a"', "END"]
                    root_text = nl.join(root) + nl
                    files.files["root.map"] = root_text
                    files.write()
                    want = ("ok", D.typed(impl.loads(nl.join(flat) + nl, expand_includes=False))) if flat else None
                    for entry in entries():
                        got = run_entry(entry, os.path.join(root_dir, "root.map"), root_text, root_dir, elsewhere, False)
                        res["evals"] += 1
                        if (got == want) if want else (got[0] == "exc"):
                            R.add_outcome(res, "equals_substitution")
                            res["states"].add(R.h64((shape, style["name"], nl, entry)))
                        else:
                            R.add_outcome(res, "differs")
                            R.add_violation(res, "shared|%s|%s" % (shape, entry), "a file included more than once in an acyclic tree is not expanded by substitution: %s" % (
                                str(got)[:160],), {"files": dict(files.files), "entry": entry, "flat": (nl.join(flat) + nl) if flat else None, "depth": 6 if not flat else 0}, None)

    with_scratch(body)
    R.add_sub(res, "one file included several times (siblings, diamond, two depths)", res["evals"])


NOISE_LINES = ['# see data/*.shp', 'SHAPEPATH "/data/*"', '/* a real block comment */', '# ends */ and starts /* again', 'IMAGETYPE "*/"',
               '# INCLUDE "not_there.map"', 'FONTSET "a /* b"  # c */ d', "SYMBOLSET 'x/*.sym'", '# /*', 'NAME "include me"', "IMAGETYPE 'INCLUDE'"]


def run_noise(res):
    """lines that merely look like comment openers / closers / directives, before and between INCLUDE lines: expansion is still substitution"""
    def body(root_dir, elsewhere):
        for si in (0, 5, 8):
            style = PATH_STYLES[si]
            for nl in ("\n", "\r\n"):
                for n1 in NOISE_LINES:
                    for n2 in (None, NOISE_LINES[0], NOISE_LINES[2]):
                        clean_dir(root_dir)
                        files = Files(root_dir, style, nl)
                        f1, f2 = files.new_name(), files.new_name()
                        files.files[f1] = '  DEBUG 1' + nl
                        files.files[f2] = nl.join(["  LAYER", '    NAME "inc"', "    TYPE POINT", "  END"]) + nl
                        root = ["MAP", "  " + n1, "  " + files.ref(f1)] + (["  " + n2] if n2 else []) + ["  " + files.ref(f2), "END"]
                        flat = ["MAP", "  " + n1, "  DEBUG 1"] + (["  " + n2] if n2 else []) + ["  LAYER", '    NAME "inc"', "    TYPE POINT", "  END", "END"]
                        root_text = nl.join(root) + nl
                        files.files["root.map"] = root_text
                        files.write()
                        try:
                            want = ("ok", D.typed(impl.loads(nl.join(flat) + nl, expand_includes=False)))
                        except Exception:
                            R.add_outcome(res, "flat_unparsed")
                            continue
                        for entry in ("open", "load_relative", "loads_cwd_root"):
                            got = run_entry(entry, os.path.join(root_dir, "root.map"), root_text, root_dir, elsewhere, False)
                            res["evals"] += 1
                            if got == want:
                                R.add_outcome(res, "equals_substitution")
                                res["states"].add(R.h64((n1, n2, style["name"], nl, entry)))
                            else:
                                R.add_outcome(res, "differs")
                                R.add_violation(res, "noise|%s|%s" % (n1, entry), "a line that only looks like a comment delimiter or a directive changes INCLUDE expansion: %s" % (str(got)[:160],),
                                                {"files": dict(files.files), "entry": entry, "flat": nl.join(flat) + nl}, None)

    with_scratch(body)
    R.add_sub(res, "look-alike lines before and between INCLUDE lines", res["evals"])


def run_symlink(res):
    """the root Mapfile (or an included file) reached through a symbolic link whose target lives in another directory that holds files
    of the same relative names: relative INCLUDEs resolve against the directory of the path that was opened, for open and load alike"""
    def body(root_dir, elsewhere):
        real = os.path.join(elsewhere, "releases")
        try:
            os.symlink(os.path.join(elsewhere, "nothing"), os.path.join(elsewhere, "probe_link"))
            os.remove(os.path.join(elsewhere, "probe_link"))
        except (OSError, NotImplementedError, AttributeError):
            R.add_skip(res, "this file system does not support symbolic links")
            return
        for style in (PATH_STYLES[0], PATH_STYLES[2], PATH_STYLES[5]):
            for nl in ("\n", "\r\n"):
                for what in ("root_is_link", "include_is_link", "both"):
                    clean_dir(root_dir)
                    shutil.rmtree(real, ignore_errors=True)
                    os.makedirs(real)
                    inc = "%s%s%sinc.map%s%s" % (style["kw"], style.get("sep", " "), style["q"], style["q"], style["trail"])
                    inc2 = "%s%s%sinc2.map%s%s" % (style["kw"], style.get("sep", " "), style["q"], style["q"], style["trail"])
                    root_text = nl.join(["MAP", '  NAME "r"', "  " + inc, "END"]) + nl
                    inc_text = nl.join(['  SHAPEPATH "inc"', "  " + inc2]) + nl
                    here = {"inc2.map": '  FONTSET "next to the opened path"' + nl}
                    there = {"inc2.map": '  FONTSET "next to the link target"' + nl, "inc.map": nl.join(['  SHAPEPATH "target inc"', "  " + inc2]) + nl}
                    for name, text in there.items():
                        with open(os.path.join(real, name), "w", encoding="utf-8", newline="") as f:
                            f.write(text)
                    for name, text in here.items():
                        with open(os.path.join(root_dir, name), "w", encoding="utf-8", newline="") as f:
                            f.write(text)
                    if what in ("root_is_link", "both"):
                        with open(os.path.join(real, "site.map"), "w", encoding="utf-8", newline="") as f:
                            f.write(root_text)
                        os.symlink(os.path.join(real, "site.map"), os.path.join(root_dir, "root.map"))
                    else:
                        with open(os.path.join(root_dir, "root.map"), "w", encoding="utf-8", newline="") as f:
                            f.write(root_text)
                    if what in ("include_is_link", "both"):
                        with open(os.path.join(real, "shared_inc.map"), "w", encoding="utf-8", newline="") as f:
                            f.write(inc_text)
                        os.symlink(os.path.join(real, "shared_inc.map"), os.path.join(root_dir, "inc.map"))
                    else:
                        with open(os.path.join(root_dir, "inc.map"), "w", encoding="utf-8", newline="") as f:
                            f.write(inc_text)
                    flat = nl.join(["MAP", '  NAME "r"', '  SHAPEPATH "inc"', '  FONTSET "next to the opened path"', "END"]) + nl
                    want = ("ok", D.typed(impl.loads(flat, expand_includes=False)))
                    for entry in ("open", "open_relative", "load", "load_relative", "loads_cwd_root"):
                        got = run_entry(entry, os.path.join(root_dir, "root.map"), root_text, root_dir, elsewhere, False)
                        res["evals"] += 1
                        if got == want:
                            R.add_outcome(res, "equals_substitution")
                            res["states"].add(R.h64((what, style["name"], nl, entry)))
                        else:
                            R.add_outcome(res, "differs")
                            R.add_violation(res, "symlink|%s|%s" % (what, entry), "through a symbolic link relative INCLUDEs are not resolved against the directory of the opened path: %s" % (
                                str(got)[:160],), {"what": what, "entry": entry}, None)

    with_scratch(body)
    R.add_sub(res, "root Mapfile / include file reached through symbolic links", res["evals"])


ODD_NAMES = ["o'neil.map", "back\\\\slash.map", "one\\back.map", "dollar$HOME.map", "semi;colon.map", "star*.map", "tilde~x.map", "pct%20.map", "amp&x.map",
             "paren(1).map", "brace{a}.map", "at@x.map", "excl!.map", "\u00fcml\u00e4ut.map"]


def run_oddnames(res):
    """include file names holding characters that mean something to a shell or to an escaping scheme (but nothing to a Mapfile): the name
    between the quotes is the file name, verbatim"""
    def body(root_dir, elsewhere):
        for name in ODD_NAMES:
            for q in ('"', "'"):
                if q in name:
                    continue
                for nl in ("\n", "\r\n"):
                    for trail in ("", "  # c"):
                        clean_dir(root_dir)
                        inc_text = '  SHAPEPATH "from %s"' % name.replace('"', "").replace("\\", "/") + nl
                        with open(os.path.join(root_dir, name), "w", encoding="utf-8", newline="") as f:
                            f.write(inc_text)
                        root_text = nl.join(["MAP", '  NAME "r"', "  INCLUDE %s%s%s%s" % (q, name, q, trail), "END"]) + nl
                        with open(os.path.join(root_dir, "root.map"), "w", encoding="utf-8", newline="") as f:
                            f.write(root_text)
                        flat = nl.join(["MAP", '  NAME "r"', inc_text.rstrip("\r\n"), "END"]) + nl
                        want = ("ok", D.typed(impl.loads(flat, expand_includes=False)))
                        for entry in ("open", "load_relative", "loads_cwd_root"):
                            got = run_entry(entry, os.path.join(root_dir, "root.map"), root_text, root_dir, elsewhere, False)
                            res["evals"] += 1
                            if got == want:
                                R.add_outcome(res, "equals_substitution")
                                res["states"].add(R.h64((name, q, nl, trail, entry)))
                            else:
                                R.add_outcome(res, "differs")
                                R.add_violation(res, "oddname|%s|%s" % (name, q), "an include file name with an unusual character is not taken verbatim: %s" % (str(got)[:160],),
                                                {"name": name, "entry": entry}, None)

    with_scratch(body)
    R.add_sub(res, "include file names with shell / escape characters", res["evals"])


def run_noexpand(res):
    """expand_includes=False keeps the directives as data and writes them back unchanged: every sequence (<= 3, repeats
    allowed) over an alphabet of include names, in every position relative to an ordinary keyword line"""
    names = ["a.map", "sub/b.map", "/abs/x.map", "z z.map"]
    seqs = [list(c) for L in (1, 2, 3) for c in itertools.product(names[:3], repeat=L)] + [["z z.map"], ["a.map", "z z.map", "a.map"]]
    for paths in seqs:
        for q in ('"', "'"):
            for otype, extra in (("map", ""), ("layer", "TYPE POINT"), ("class", ""), ("style", ""), ("symbolset", ""), ("web", ""), ("legend", "")):
                for kwpos in range(0, len(paths) + 1) if q == '"' else (1,):
                    inc = ["  INCLUDE %s%s%s" % (q, p, q) for p in paths]
                    if otype in LINE_KW:
                        inc.insert(min(kwpos, len(inc)), '  %s "k"' % LINE_KW[otype])
                    elif kwpos:
                        continue        # block types without a simple string keyword of their own: the INCLUDE lines alone
                    lines = [otype.upper()] + (["  " + extra] if extra else []) + inc + ["END"]
                    text = "\n".join(lines)
                    res["evals"] += 1
                    try:
                        d = impl.loads(text, expand_includes=False)
                        ok = d.get("include") == paths
                        out = impl.dumps(d)
                        written = [ln.strip() for ln in out.split("\n") if ln.strip().upper().startswith("INCLUDE")]
                        ok = ok and written == ['INCLUDE "%s"' % p for p in paths]
                        d2 = impl.loads(out, expand_includes=False)
                        ok = ok and D.typed(d2) == D.typed(d)
                        why = "include list %r, written lines %r, after dumps/loads %r" % (d.get("include"), written, d2.get("include"))
                    except Exception as e:
                        ok, why = False, "%s: %s" % (impl.exc_name(e), str(e)[:100])
                    if ok:
                        R.add_outcome(res, "directives_kept")
                        res["states"].add(R.h64(text))
                    else:
                        R.add_violation(res, "noexpand|%s|%r" % (otype, paths), "with expand_includes=False the directives must be kept as data and written back: " + why,
                                        {"text": text}, None)
    R.add_sub(res, "expand_includes=False round trip", res["evals"])


def run_unit(unit):
    res = R.new_result()
    k = unit[0]
    if k == "TREES":
        run_trees(res, unit[1], unit[2])
    elif k == "CHAINS":
        run_chains(res)
    elif k == "CYCLES":
        run_cycles(res)
    elif k == "MISSING":
        run_missing(res)
    elif k == "NOEXPAND":
        run_noexpand(res)
    elif k == "SHARED":
        run_shared(res)
    elif k == "NOISE":
        run_noise(res)
    elif k == "SYMLINK":
        run_symlink(res)
    elif k == "ODDNAMES":
        run_oddnames(res)
    else:
        # public-API binding: the module-level open / load / loads on a bounded subset
        run_trees(res, 3, 0, public=True, limit=6)
        run_trees(res, 4, 6, public=True, limit=6)
    return res


def describe(tier):
    return {"rule": "case = (include tree, cut kinds, path style, line ending, entry point); state = distinct resulting dictionary",
            "bounds": {"max_files": 5, "tree_shapes": {n: len(list(tree_shapes(n))) for n in range(1, 6)}, "cut_kinds": ["block", "lines", "empty file", "blank/comment-only file (<= 4 files)"],
                       "path_styles": [s["name"] for s in PATH_STYLES], "line_endings": ["LF", "CRLF"], "entries": entries(), "chain_depths": "0..7"}}


def replay(case):
    if "files" not in case:
        # symlink / odd-name cases carry no file set: the unit is small, re-run it and look the case up
        res = R.new_result()
        if "what" in case:
            run_symlink(res)
        elif "name" in case:
            run_oddnames(res)
        else:
            return None
        hits = [v for v in res["violations"] if all(v["case"].get(k) == case.get(k) for k in ("what", "name", "entry"))]
        return {"what": hits[0]["what"]} if hits else None

    def body(root_dir, elsewhere):
        for rel, text in case["files"].items():
            p = os.path.join(root_dir, rel)
            os.makedirs(os.path.dirname(p), exist_ok=True)
            with open(p, "w", encoding="utf-8", newline="") as f:
                f.write(text)
        got = run_entry(case["entry"], os.path.join(root_dir, "root.map"), case["files"]["root.map"], root_dir, elsewhere, True)
        if case.get("flat"):
            want = ("ok", D.typed(impl.loads(case["flat"], expand_includes=False)))
            return None if got == want else {"got": str(got)[:500]}
        if "depth" in case:
            return None if (got[0] == "exc") == (case["depth"] > 5) else {"got": str(got)[:300]}
        return None if got[0] == "exc" else {"got": str(got)[:300]}

    return with_scratch(body)
