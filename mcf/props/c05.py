"""C05 - surface syntax does not change meaning (deviation-bounded exploration of renderings)."""
from __future__ import annotations

from .. import runner as R
from .. import vocab as V
from .. import docmodel as D
from .. import spaces as S
from .. import docprop as P
from .. import deviate as DV
from .. import optsweep as O
from .. import reader as RD
from .. import corpus
from .. import impl

ID = "C05"
LEVEL_TEXT = ("deviation-bounded exhaustive exploration on the real loads: for every base document every rendering with 0, 1 (thorough: 2) deviations "
              "from the canonical rendering (keyword case per token, separator kind per gap, quote character per string, bare vs quoted) and 13 "
              "uniform renderings; every formatted corpus file under uniform gap perturbations; every LALR context in lower vs upper case. "
              "loads(variant) must equal loads(canonical) exactly")
ASSUMPTIONS = ["value words are not case-varied; quote/bare deviations only on strings that contain no quote / are identifier-like non-keywords",
               "base documents on which the canonical rendering itself is not accepted are judged by C02/C19, not here"]


STRUCTURAL = set(V.GRAMMAR_WORDS) - {"auto", "hilite", "selected", "true", "false", "null", "not", "and", "or", "in", "ne", "eq", "le", "lt",
                                       "ge", "gt", "like", "include"}


def units(tier):
    us = [("INCLUDEGAP",)] + [("LALRCASE", i, 16) for i in range(16)]
    us += [("S6", i) for i in range(16)]
    for t in V.object_types():
        us.append(("DEV", "S1", t, 1))
        us.append(("DEV", "S1n", t, 1))
    us.append(("DEV", "S4", None, 1))
    if tier == "quick":
        for t in V.object_types():
            us.append(("DEV", "S2", t, 0))      # positions first/middle/last: uniform renderings only
    if tier == "thorough":
        for t in V.object_types():
            us.append(("DEV", "S2", t, 1))
            us.append(("DEV2", t))
        us.append(("DEV", "S3", None, 1))
        us.append(("DEV2", None))
    return us


def load(text):
    try:
        return ("ok", D.typed(impl.loads(text)))
    except Exception as e:
        return ("exc", impl.exc_name(e))


def run_dev(res, docs, bound):
    for label, tree in docs:
        base_text, _ = D.render(tree)
        base = load(base_text)
        if base[0] != "ok":
            R.add_outcome(res, "base_unparsed(C02/C19)")
            continue
        res["states"].add(R.h64(base))
        variants = [((("uniform", name),), D.Style(**kw)) for name, kw in DV.UNIFORM] if bound <= 1 else []
        for devs in (DV.deviations(tree, bound) if bound else ()):
            if bound == 2 and len(devs) < 2:
                continue
            variants.append((devs, DV.style_for(devs)))
        for devs, st in variants:
            if devs[0][0] == "uniform" and devs[0][1] in ("single quotes", "lower+squote+bare+crlf") and has_quote(tree):
                continue
            text, _ = D.render(tree, st)
            got = load(text)
            res["evals"] += 1
            if got == base:
                R.add_outcome(res, "same_meaning")
                continue
            R.add_outcome(res, "meaning_changed")
            small = P.minimise(tree, lambda t, devs=devs: differs(t, devs), budget=120) if devs[0][0] == "uniform" else tree
            R.add_violation(res, "surface|%s|%s" % (dev_name(small, devs), P.oneline(small)),
                            "an equivalent rendering loads differently: %s vs canonical %s" % (str(got)[:150], str(base)[:150]),
                            {"tree": D.describe(small), "devs": [list(d) for d in devs]}, {"label": label, "variant_text": text[:400]})
    R.add_sub(res, "renderings with <=%d deviations + uniform" % bound, res["evals"])


def has_quote(tree):
    _, toks = D.render(tree)
    return any(t.kind in ("str", "hex") and ("'" in (t.raw or "") or '"' in (t.raw or "")) for t in toks)


def differs(tree, devs):
    name = devs[0][1]
    kw = dict(DV.UNIFORM)[name]
    a = load(D.render(tree)[0])
    return a[0] == "ok" and load(D.render(tree, D.Style(**kw))[0]) != a


def dev_name(tree, devs):
    if devs[0][0] == "uniform":
        return "uniform:" + devs[0][1]
    _, toks = D.render(tree)
    out = []
    for d in devs:
        tk = toks[d[1]]
        if d[0] == "gap":
            out.append("gap before %s=%r" % (tk.text if tk.kind == "kwd" else tk.kind, d[2]))
        elif d[0] == "case":
            out.append("case %s=%s" % (tk.text, d[2]))
        else:
            out.append("%s %s" % (d[0], tk.kind))
    return ";".join(out)


def run_corpus(res, shard):
    """formatted corpus files: a separator of each kind inserted at EVERY inter-token gap (uniform perturbations)"""
    for f in corpus.files()[shard::16]:
        text = corpus.read(f)
        if text is None:
            continue
        try:
            d = impl.loads(text)
            t1 = impl.dumps(d)
            base = ("ok", D.typed(impl.loads(t1)))
            toks = [t for t in RD.lex(t1) if t.cls != "nl"]
        except Exception:
            R.add_outcome(res, "corpus_unparsed_or_unreadable")
            continue
        rel = f.replace(R.REPO + "/", "")
        res["states"].add(R.h64(rel))
        for name, gap in (("spaces", "  "), ("tabs", "\t"), ("lf", "\n"), ("crlf", "\r\n"), ("hash comment", " # c\n"), ("c comment", " /* c */ "),
                          ("form feed", " \f "), ("lf+indent", "\n\t ")):
            variant = gap.join(t.text for t in toks)
            got = load(variant)
            res["evals"] += 1
            if got == base:
                R.add_outcome(res, "same_meaning")
            else:
                R.add_outcome(res, "meaning_changed")
                R.add_violation(res, "corpus|%s|%s" % (name, rel), "formatted corpus file loads differently when every gap is %r: %s" % (gap, str(got)[:120]),
                                {"file": rel, "gap": gap}, None)
    R.add_sub(res, "corpus files x uniform gap perturbations", res["evals"])


def run_includegap(res):
    """the INCLUDE line is handled by a text pre-pass: the kind of whitespace after the keyword and the keyword's case must not matter either"""
    import os
    import shutil
    import tempfile

    tmp = tempfile.mkdtemp(prefix="mcf_c05_")
    try:
        with open(os.path.join(tmp, "part.map"), "w", encoding="utf-8") as f:
            f.write('  SHAPEPATH "from include"\n  LAYER\n    NAME "inc"\n    TYPE POINT\n  END\n')
        root = os.path.join(tmp, "root.map")
        base = None
        for kw in ("INCLUDE", "include", "Include", "iNcLuDe"):
            for sep in (" ", "\t", "  ", " \t ", "\t\t", "\f", " \f\t"):
                for q in ('"', "'", ""):
                    for lead in ("  ", "\t", "", " \f "):
                        for trail in ("", " ", "\t", " # c", "\t# c"):
                            for nl in ("\n", "\r\n"):
                                text = nl.join(["MAP", '  NAME "r"', "%s%s%s%spart.map%s%s" % (lead, kw, sep, q, q, trail), "  STATUS ON", "END"]) + nl
                                try:
                                    got = ("ok", D.typed(impl.loads(text, expand_includes=True, fn=root)))
                                except Exception as e:
                                    got = ("exc", impl.exc_name(e))
                                res["evals"] += 1
                                if base is None:
                                    base = got
                                    if got[0] != "ok":
                                        R.add_violation(res, "includegap|canonical", "the canonical INCLUDE line is not expanded: %s" % (got,), {"text": text}, None)
                                        return
                                if got == base:
                                    R.add_outcome(res, "same_meaning")
                                else:
                                    R.add_outcome(res, "meaning_changed")
                                    R.add_violation(res, "includegap|kw=%s sep=%r lead=%r trail=%r q=%r" % (kw, sep, lead, trail, q),
                                                    "an INCLUDE line written with other whitespace / case / quotes loads differently: %s" % (str(got)[:120],), {"text": text}, None)
        res["states"].add(R.h64(base))
    finally:
        shutil.rmtree(tmp, ignore_errors=True)
    R.add_sub(res, "INCLUDE line: keyword case x separator x quotes x leading/trailing whitespace x line ending", res["evals"])


def run_lalrcase(res, shard, nshards):
    from .. import lalr

    ex = lalr.Explorer(2)
    ctxs = ex.contexts()
    keys = sorted(ctxs)
    for ci, c in enumerate(keys):
        if ci % nshards != shard:
            continue
        path, ip = ctxs[c]
        comp = ex.completion(ip)
        if comp is None:
            continue
        full = path + comp

        def text(policy):
            out = []
            for tname, lx in full:
                pat = [t for t in ex.lark.terminals if t.name == tname]
                # only structural keywords are case-varied: value words (AUTO, HILITE, NULL ...) and expression
                # word operators legitimately keep their spelling
                is_kw = pat and type(pat[0].pattern).__name__ == "PatternStr" and lx.isalpha() and lx.lower() in STRUCTURAL
                out.append(D.apply_case(lx, policy) if is_kw else lx)
            return " ".join(out)

        a = load(text("upper"))
        for pol in ("lower", "alt"):
            b = load(text(pol))
            res["evals"] += 1
            if a[0] == "ok" and a != b:
                R.add_outcome(res, "meaning_changed")
                R.add_violation(res, "lalrcase|%s|%s" % (pol, text("upper")), "keyword case changes the result: %s vs %s" % (str(b)[:100], str(a)[:100]),
                                {"text_upper": text("upper"), "text_variant": text(pol)}, None)
            else:
                R.add_outcome(res, "same_meaning" if a[0] == "ok" else "both_rejected_or_base_rejected")
        res["states"].add(R.h64(a))
    R.add_sub(res, "LALR contexts completed, upper vs lower/alternating keyword case", res["evals"])


def run_unit(unit):
    res = R.new_result()
    k = unit[0]
    if k == "DEV":
        if unit[1] == "S4":
            docs = list(S.s4()) + list(S.root_lists()) + O.rich_docs()
        elif unit[1] == "S3":
            docs = [x for t in V.object_types() for x in S.s3_pairs(t)]
        else:
            docs = list(S.iter_unit((unit[1], unit[2])))
        run_dev(res, docs, unit[3])
        if docs:
            R.add_sample(res, {"base": docs[0][0], "deviation_sites": len(DV.sites(docs[0][1])), "uniform": [n for n, _ in DV.UNIFORM][:4]}, 1)
    elif k == "DEV2":
        docs = list(S.s1(unit[1])) if unit[1] else list(S.s4())[::4]
        run_dev(res, docs, 2)
    elif k == "S6":
        run_corpus(res, unit[1])
    elif k == "INCLUDEGAP":
        run_includegap(res)
    else:
        run_lalrcase(res, unit[1], unit[2])
    return res


def describe(tier):
    return {"rule": "case = (base document, set of <= b deviations) ; state = distinct canonical dictionary",
            "bounds": dict(V.summary(), deviation_bound=1 if tier == "quick" else 2, case_policies=DV.CASES, gap_kinds=DV.GAPS,
                           uniform_renderings=[n for n, _ in DV.UNIFORM], bases="S1+S4+rich" + ("+S2+S3 pairs" if tier == "thorough" else ""))}


def replay(case):
    import mappyfile

    if "tree" in case:
        tree = D.undescribe(case["tree"])
        devs = [tuple(d) for d in case["devs"]]
        st = D.Style(**dict(DV.UNIFORM)[devs[0][1]]) if devs[0][0] == "uniform" else DV.style_for(devs)
        a = D.typed(mappyfile.loads(D.render(tree)[0]))
        try:
            b = D.typed(mappyfile.loads(D.render(tree, st)[0]))
        except Exception as e:
            return {"variant raises": repr(e)[:300]}
        return None if a == b else {"variant": D.render(tree, st)[0]}
    return None
