"""C13 - position and comment bookkeeping is transparent."""
from __future__ import annotations

import copy
import os
import tempfile

from .. import runner as R
from .. import vocab as V
from .. import docmodel as D
from .. import spaces as S
from .. import optsweep as O
from .. import reader as RD
from .. import corpus
from .. import impl

ID = "C13"
LEVEL_TEXT = ("bounded exhaustive exploration: every S1/S4/root-list document decorated with comments (uniformly at every statement, and every single "
              "comment placement of three kinds at every gap) and every corpus file is loaded under the four include_position x include_comments "
              "combinations; all non-hidden content must be identical to the plain load, the printer must emit no position data and, apart from "
              "comment text, the same tokens; loads / open / load are bound together on files")
ASSUMPTIONS = ["hidden keys are exactly __position__ and __comments__ (and __type__ is content)", "newlinechar LF when printing"]

COMMENT_GAPS = [" # cmt\n", " /* cmt */ ", "\n# above\n", "\n/* two\n   lines */\n"]
FLAGS = [(False, False), (True, False), (False, True), (True, True)]


def units(tier):
    us = [("DOCS", "S4", i) for i in range(8)] + [("SPECIAL",)] + [("API", i) for i in range(8)] + [("S6", i) for i in range(16)]
    us += [("DOCS", "S1", t) for t in V.object_types()]
    if tier == "thorough":
        us += [("DOCS", "S2", t) for t in V.object_types()]
    return us


def strip_bk(v):
    if isinstance(v, dict):
        return {k: strip_bk(x) for k, x in v.items() if k not in ("__position__", "__comments__")}
    if isinstance(v, (list, tuple)):
        return [strip_bk(x) for x in v]
    return v


def content_tokens(text):
    return [(t.cls, t.text) for t in RD.lex(text) if t.cls not in ("comment", "nl")]


SPECIAL = [
    'MAP\r\n  NAME "two\r\nlines" # c1\r\n  WEB # c2\r\n    TEMPLATE "a\r\n\r\nb"\r\n  END\r\n  /* block\r\n comment */\r\n  STATUS ON\r\nEND\r\n',
    "LAYER # c\r\n  DATA 'select *\r\n from t' # trailing\r\n  TYPE POINT\r\n  METADATA\r\n    \"k\" \"v1\r\nv2\" # pair comment\r\n  END\r\nEND",
    'MAP\n  NAME "tab\there" # c\n  SHAPEPATH "ff\x0chere\x85and\u2028here"\n  # above\n  LAYER\n    TYPE LINE\n    NAME "cr\rinside"\n  END\nEND',
    'MAP # \x0c odd \u2028 comment \x85 text\n  NAME "n"\n  /* c1 */ /* c2 */ # c3\n  STATUS ON # c4 /* not c */\nEND',
    'MAP\n\n\n  NAME "n"\n\n  # a\n\n  # b\n\n  LAYER\n\n    TYPE POINT # t\n\n  END # e1\n\nEND # e2\n# tail\n',
]


def judge_text(text, optsets=None):
    """(category, message) comparing the four flag combinations on one text"""
    try:
        plain = impl.loads(text)
    except Exception as e:
        # the text must then be rejected under every flag combination as well
        for p, c in FLAGS[1:]:
            try:
                impl.loads(text, include_position=p, include_comments=c)
                return "accept_differs", "rejected by a plain load (%s) but accepted with include_position=%s include_comments=%s" % (impl.exc_name(e), p, c)
            except Exception:
                pass
        return "unparsed", None
    tp = D.typed(plain)
    try:
        out_plain = impl.dumps(plain)
    except Exception:
        out_plain = None
    for p, c in FLAGS[1:]:
        try:
            d = impl.loads(text, include_position=p, include_comments=c)
        except Exception as e:
            return "load_fails", "include_position=%s include_comments=%s: load raises %s although the plain load succeeds" % (p, c, impl.exc_name(e))
        if D.typed(strip_bk(d)) != tp:
            return "content", "include_position=%s include_comments=%s changes content: %s" % (p, c, D.strict_diff(plain, strip_bk(d)) or "order/type differs")
        if out_plain is None:
            continue
        try:
            out = impl.dumps(d)
        except Exception as e:
            return "dumps_fails", "dictionary loaded with include_position=%s include_comments=%s cannot be printed: %s" % (p, c, impl.exc_name(e))
        if not c:
            if out != out_plain:
                return "print_position", "dictionary loaded with positions prints differently from the plain one"
        else:
            try:
                if content_tokens(out) != content_tokens(out_plain):
                    return "print_comments", "apart from comments the dictionary loaded with include_position=%s include_comments=True prints different tokens" % p
            except RD.ReadError as e:
                return "print_unreadable", "output with comments cannot be read: %s" % e
        # the same under formatter options: apart from comment text the printed text must be exactly the plain one
        for o in optsets or ():
            if c and "\n" not in o["newlinechar"]:
                continue
            try:
                a = impl.dumps(copy.deepcopy(d), **o)
                b = impl.dumps(copy.deepcopy(plain), **o)
            except Exception as e:
                return "dumps_fails", "printing with options %s raises %s" % (O.oname(o), impl.exc_name(e))
            same = (a == b) if not c else (strip_comment_text(a) == strip_comment_text(b))
            if not same:
                return "print_options", "loaded with include_position=%s include_comments=%s the dictionary prints differently from the plain one under %s" % (p, c, O.oname(o))
    return None, None


def strip_comment_text(text):
    """printed text with the comment tokens removed and trailing blanks / emptied lines dropped"""
    toks = RD.lex(text)
    out = []
    pos = 0
    for t in toks:
        if t.cls == "comment":
            out.append(text[pos:t.pos])
            pos = t.pos + len(t.text)
    out.append(text[pos:])
    lines = [ln.rstrip(" \t") for ln in "".join(out).replace("\r\n", "\n").split("\n")]
    return [ln for ln in lines if ln.strip()]


CORNERS = [o for o in O.corner_sets() if not o["separate_complex_types"]]


def run_docs(res, docs, with_options=False):
    for label, tree in docs:
        _, toks = D.render(tree)
        variants = [("uniform#", D.Style(gaps={i: " # c%d\n" % i + D.IND * t.depth for i, t in enumerate(toks) if i and t.stmt_start})),
                    ("uniform/**/", D.Style(default_gap=" /* c */ ")), ("plain", D.Style())]
        for i in range(1, len(toks)):
            for g in COMMENT_GAPS:
                variants.append(("gap %d=%r" % (i, g), D.Style(gaps={i: g})))
        for vname, st in variants:
            text = D.render(tree, st)[0]
            cat, msg = judge_text(text, CORNERS if (with_options and not vname.startswith("gap")) else None)
            res["evals"] += 1
            if cat is None:
                R.add_outcome(res, "transparent")
                res["states"].add(R.h64(text))
            elif cat == "unparsed":
                R.add_outcome(res, "unparsed_under_all_flags")
            else:
                R.add_outcome(res, cat)
                from .. import docprop as P

                R.add_violation(res, "%s|%s|%s" % (cat, vname.split("=")[-1] if vname.startswith("gap") else vname, P.oneline(tree)),
                                "bookkeeping flags are not transparent: " + msg, {"text": text}, {"label": label})
    R.add_sub(res, "documents x comment decorations x 4 flag combinations", res["evals"])
    if docs:
        R.add_sample(res, {"document": docs[0][0], "decorated": D.render(docs[0][1], D.Style(default_gap=" /* c */ "))[0]}, 1)


def run_corpus(res, shard):
    for f in corpus.files()[shard::16]:
        text = corpus.read(f)
        if text is None:
            continue
        cat, msg = judge_text(text)
        res["evals"] += 1
        rel = f.replace(R.REPO + "/", "")
        if cat is None:
            R.add_outcome(res, "transparent")
            res["states"].add(R.h64(rel))
        elif cat == "unparsed":
            R.add_outcome(res, "unparsed_under_all_flags")
        else:
            R.add_outcome(res, cat)
            R.add_violation(res, "%s|file=%s" % (cat, rel), "bookkeeping flags are not transparent: " + msg, {"file": rel}, None)
    R.add_sub(res, "corpus files x 4 flag combinations", res["evals"])


def run_api(res, shard):
    """loads / open / load agree under every flag combination (real files)"""
    import mappyfile

    docs = (list(S.s4()) + O.rich_docs())[shard::8]
    tmp = tempfile.mkdtemp(prefix="mcf_c13_")
    try:
        for label, tree in docs:
            if isinstance(tree, list):
                continue
            _, toks = D.render(tree)
            text = D.render(tree, D.Style(gaps={i: " # c%d\n" % i + D.IND * t.depth for i, t in enumerate(toks) if i and t.stmt_start}))[0]
            fn = os.path.join(tmp, "d.map")
            with open(fn, "w", encoding="utf-8", newline="") as f:
                f.write(text)
            for p, c in FLAGS:
                outs = []
                for how in ("loads", "open", "load", "workers"):
                    try:
                        if how == "loads":
                            d = mappyfile.loads(text, include_position=p, include_comments=c)
                        elif how == "open":
                            d = mappyfile.open(fn, include_position=p, include_comments=c)
                        elif how == "load":
                            with open(fn, encoding="utf-8", newline="") as fp:
                                d = mappyfile.load(fp, include_position=p, include_comments=c)
                        else:
                            d = impl.loads(text, include_position=p, include_comments=c)
                        outs.append(("ok", D.typed(d)))
                    except Exception as e:
                        outs.append(("exc", type(e).__name__))
                res["evals"] += 1
                if len(set(map(repr, outs))) != 1:
                    from .. import docprop as P

                    R.add_violation(res, "api|position=%s comments=%s|%s" % (p, c, P.oneline(tree)), "loads / open / load / reused workers disagree",
                                    {"text": text, "api": True}, None)
                else:
                    R.add_outcome(res, "api_agrees")
    finally:
        import shutil

        shutil.rmtree(tmp, ignore_errors=True)
    R.add_sub(res, "API binding (loads, open, load) x 4 flag combinations", res["evals"])


def run_unit(unit):
    res = R.new_result()
    if unit[0] == "API":
        run_api(res, unit[1])
    elif unit[0] == "S6":
        run_corpus(res, unit[1])
    elif unit[0] == "SPECIAL":
        for text in SPECIAL:
            cat, msg = judge_text(text, CORNERS)
            res["evals"] += 1
            if cat is None:
                R.add_outcome(res, "transparent")
                res["states"].add(R.h64(text))
            elif cat == "unparsed":
                R.add_outcome(res, "unparsed_under_all_flags")
            else:
                R.add_violation(res, "%s|special %d" % (cat, SPECIAL.index(text)), "bookkeeping flags are not transparent: " + msg, {"text": text}, None)
        R.add_sub(res, "hand-made texts: CRLF + multi-line strings, odd characters, stacked comments", len(SPECIAL))
    elif unit[1] == "S4":
        run_docs(res, ([(l, t) for l, t in S.s4() if l.endswith("before_after")] + O.rich_docs())[unit[2]::8], with_options=True)
        run_docs(res, ([(l, t) for l, t in S.s4() if not l.endswith("before_after")] + list(S.root_lists()))[unit[2]::8])
    else:
        run_docs(res, list(S.iter_unit((unit[1], unit[2]))))
    return res


def describe(tier):
    return {"rule": "case = (text, the 4 flag combinations); state = distinct text",
            "bounds": dict(V.summary(), comment_kinds=COMMENT_GAPS, decorations="plain, uniform # at every statement, uniform /* */ at every gap, every single placement",
                           corpus_files=len(corpus.files()))}


def replay(case):
    text = case.get("text") or corpus.read(R.REPO + "/" + case["file"])
    cat, msg = judge_text(text, CORNERS)
    return {"category": cat, "message": msg} if cat and cat != "unparsed" else None
