"""C08 - recorded positions and validation error locations are exact."""
from __future__ import annotations

import copy

from .. import runner as R
from .. import vocab as V
from .. import docmodel as D
from .. import spaces as S
from .. import docprop as P
from .. import optsweep as O
from .. import impl
from .c07 import fault_docs

ID = "C08"
LEVEL_TEXT = ("bounded exhaustive exploration: every S1/S4 document x layout style (+ every single gap deviation in the thorough tier) is rendered by "
              "my renderer, which records the 1-based line/column of every token; loads(include_position=True) must report exactly those for every "
              "block opener and keyword, value positions in source order; every text-level fault (unknown keyword, enum miss, range miss, list item, "
              "missing required) at every object of the multi-level documents must be reported at the offending keyword / enclosing opener")
ASSUMPTIONS = ["columns count characters (a tab is one column), lines are counted by LF; include-free text",
               "for a keyword given twice the position of the last occurrence is expected (the value kept is the last one)"]

LAYOUTS = [
    ("canonical", {}),
    ("oneline", {"oneline": True}),
    ("crlf", {"newline": "\r\n"}),
    ("tabs", {"indent": "\t"}),
    ("spread", {"spread": True}),
    ("hash_comments", {"stmt_gap": " # c\n"}),
    ("c_comments", {"default_gap": " /* c */ "}),
    ("lower", {"kwcase": "lower"}),
    ("formfeed", {"default_gap": " \f "}),
    ("formfeed_lines", {"stmt_gap": " \f\n"}),
    ("multiline_c_comments", {"stmt_gap": " /* a\n   b\n c */\n"}),
    ("multiline_c_comment_then_same_line", {"stmt_gap": "\n/* a\n b */ "}),
]
GAP_KINDS = [" ", "\t", "\n", "\r\n", "  \f ", " # c\n", " /* c */ ", "\n\n   "]


def mk_style(tree, kw):
    kw = dict(kw)
    spread = kw.pop("spread", False)
    stmt_gap = kw.pop("stmt_gap", None)
    st = D.Style(**kw)
    if spread or stmt_gap:
        _, toks = D.render(tree)
        for i, t in enumerate(toks):
            if i == 0:
                continue
            if spread and t.role in ("value", "kvval") and not t.stmt_start:
                st.gaps[i] = "\n      "
            if stmt_gap and t.stmt_start:
                st.gaps[i] = stmt_gap + D.IND * t.depth
    return st


def units(tier):
    us = [("FAULTS", i) for i in range(len(fault_docs()))]
    us += [("MULTILINE",), ("ROOTLIST",), ("DUPKW",), ("WIDECHARS",), ("CONFIG",)]
    us += S.doc_units(["S1", "S1n", "S4", "ROOT"] + (["S2"] if tier == "thorough" else []), tier)
    if tier == "thorough":
        us += [("DEV", t) for t in V.object_types()]
    return us


def pos_of(p):
    return (p.get("line"), p.get("column"))


def check_positions(tree, d, toks):
    """None or message"""
    by_ref = {}
    for i, t in enumerate(toks):
        by_ref.setdefault(t.ref, []).append((i, t))

    def next_stmt_pos(idx):
        for t in toks[idx + 1:]:
            if t.stmt_start:
                return (t.line, t.col)
        return None

    def values_ok(pd, ref, what):
        """value positions follow in source order: non-decreasing, each inside a value token of this statement"""
        vt = [t for i, t in by_ref.get(ref, []) if t.role in ("value", "kvval", "kvkey")]
        vals = [tuple(v) for v in pd.get("values", [])]
        if not vals or not vt:
            return None
        if vals != sorted(vals):
            return "%s: value positions not in source order: %s" % (what, vals)
        spans = []
        for t in vt:
            w = len(t.text_written)
            if "\n" in t.text_written:
                w = 10 ** 6
            spans.append((t.line, t.col, t.col + w))
        for v in vals:
            if not any(v[0] == ln and c0 <= v[1] < c1 for ln, c0, c1 in spans):
                return "%s: value position %s is not inside a value token of the statement %s" % (what, v, spans)
        return None

    def block(b, dd, ref):
        if not isinstance(dd, dict) or "__position__" not in dd:
            return "%s: no __position__ recorded for block %s" % (ref, b.type)
        opener = [t for _, t in by_ref[ref] if t.role == "opener"][0]
        if pos_of(dd["__position__"]) != (opener.line, opener.col):
            return "block %s opener at %s recorded as %s" % (b.type.upper(), (opener.line, opener.col), pos_of(dd["__position__"]))
        pd = dd["__position__"]
        counts = {}
        last_kw = {}
        for i, it in enumerate(b.items):
            if it[0] == "kw":
                last_kw[it[1]] = i
        for i, it in enumerate(b.items):
            r = ref + (i,)
            k = it[0]
            if k == "kw":
                if last_kw[it[1]] != i:
                    continue
                key = it[1]
                kt = [t for _, t in by_ref[r] if t.role == "key"][0]
                if key not in pd:
                    return "keyword %s: no position recorded" % key.upper()
                if pos_of(pd[key]) != (kt.line, kt.col):
                    return "keyword %s at %s recorded as %s" % (key.upper(), (kt.line, kt.col), pos_of(pd[key]))
                m = values_ok(pd[key], r, key.upper())
                if m:
                    return m
            elif k in ("child", "inline"):
                sub = dd.get(it[1])
                if k == "inline" and not isinstance(sub, dict):
                    lst = dd.get(it[1] + "s")
                    n = counts.get(it[1] + "s", 0)
                    counts[it[1] + "s"] = n + 1
                    sub = lst[n] if isinstance(lst, list) and n < len(lst) else None
                m = block(it[2], sub, r)
                if m:
                    return m
            elif k == "children":
                n = counts.get(it[1], 0)
                counts[it[1]] = n + 1
                m = block(it[2], dd[it[1]][n], r)
                if m:
                    return m
            elif k == "kv":
                sub = dd.get(it[1])
                opener2 = [t for _, t in by_ref[r] if t.role == "opener"][0]
                if not isinstance(sub, dict) or "__position__" not in sub:
                    return "%s block: no __position__" % it[1].upper()
                if pos_of(sub["__position__"]) != (opener2.line, opener2.col):
                    return "%s opener at %s recorded as %s" % (it[1].upper(), (opener2.line, opener2.col), pos_of(sub["__position__"]))
                vals = [tuple(v) for v in sub["__position__"].get("values", [])]
                want = [(t.line, t.col) for _, t in sorted((x for j in range(len(it[2])) for x in by_ref.get(r + (j,), [])), key=lambda x: x[0])]
                if vals != want:
                    return "%s pair positions %s, tokens at %s" % (it[1].upper(), vals, want)
            elif k == "config":
                kt = [t for _, t in by_ref[r] if t.role == "key"][0]
                last = max(j for j, x in enumerate(b.items) if x[0] == "config" and x[1].lower() == it[1].lower())
                if last != i:
                    continue
                cp = pd.get("config", {}).get(it[1].lower())
                if cp is None or pos_of(cp) != (kt.line, kt.col):
                    return "CONFIG %s at %s recorded as %s" % (it[1], (kt.line, kt.col), cp and pos_of(cp))
            elif k in ("projection", "pattern"):
                last = max(j for j, x in enumerate(b.items) if x[0] == k)
                if last != i:
                    continue
                ot = [t for _, t in by_ref[r] if t.role == "opener"][0]
                if k not in pd or pos_of(pd[k]) != (ot.line, ot.col):
                    return "%s at %s recorded as %s" % (k.upper(), (ot.line, ot.col), pd.get(k) and pos_of(pd[k]))
                m = values_ok(pd[k], r, k.upper())
                if m:
                    return m
            elif k in ("points", "repeated"):
                key = "points" if k == "points" else it[1]
                n = counts.get(key, 0)
                counts[key] = n + 1
                total = sum(1 for x in b.items if (x[0] == "points" if k == "points" else (x[0] == "repeated" and x[1] == key)))
                ot = [t for _, t in by_ref[r] if t.role in ("opener", "key")][0]
                rec = pd.get(key)
                if isinstance(rec, list):
                    rec = rec[n] if n < len(rec) else None
                elif total > 1:
                    return "%s given %d times but a single position is recorded" % (key.upper(), total)
                if rec is None or pos_of(rec) != (ot.line, ot.col):
                    return "%s #%d at %s recorded as %s" % (key.upper(), n, (ot.line, ot.col), rec and pos_of(rec))
        return None

    if isinstance(tree, list):
        for bi, b in enumerate(tree):
            m = block(b, d[bi], (("root", bi),))
            if m:
                return m
        return None
    return block(tree, d, ())


def judge(tree, style):
    text, toks = D.render(tree, style)
    try:
        d = impl.loads(text, include_position=True)
    except Exception as e:
        return "unparsed", impl.exc_name(e), text
    if isinstance(tree, list) != isinstance(d, list):
        return "unparsed", "shape", text
    try:
        m = check_positions(tree, d, toks)
    except (KeyError, IndexError, TypeError) as e:
        return "structure", "dictionary does not have the structure of the document (%s: %s) - see C02" % (type(e).__name__, e), text
    if m:
        return "position", m, text
    return None, None, text


def check_tree(res, label, tree, lname, lkw):
    style = mk_style(tree, lkw)
    cat, msg, text = judge(tree, style)
    res["evals"] += 1
    if cat is None:
        R.add_outcome(res, "exact")
        res["states"].add(R.h64(text))
        return
    if cat in ("unparsed", "structure"):
        R.add_outcome(res, cat + "(judged by C02/C05)")
        return
    R.add_outcome(res, cat)

    def pred(t):
        return judge(t, mk_style(t, lkw))[0] == cat

    small = P.minimise(tree, pred)
    _, msg2, text2 = judge(small, mk_style(small, lkw))
    R.add_violation(res, "%s|%s|%s" % (cat, lname, P.oneline(small)), "recorded position is not where the token is: " + (msg2 or msg),
                    {"tree": D.describe(small), "layout": lname}, {"label": label, "message": msg2 or msg, "text": text2})


def run_dev(res, otype):
    """all single gap deviations on the S1 documents of one type"""
    for label, tree in S.s1(otype):
        _, toks = D.render(tree)
        for i in range(1, len(toks)):
            for gk in GAP_KINDS:
                st = D.Style(gaps={i: gk})
                cat, msg, text = judge(tree, st)
                res["evals"] += 1
                if cat is None:
                    R.add_outcome(res, "exact")
                    res["states"].add(R.h64(text))
                elif cat in ("unparsed", "structure"):
                    R.add_outcome(res, cat + "(judged by C02/C05)")
                else:
                    R.add_outcome(res, cat)
                    R.add_violation(res, "%s|gap %d=%r|%s" % (cat, i, gk, P.oneline(tree)), "recorded position is not where the token is: " + msg,
                                    {"tree": D.describe(tree), "gap": [i, gk]}, {"text": text})
    R.add_sub(res, "single gap deviations", res["evals"])


# ------------------------------------------------------------------ error locations
def text_faults(otype):
    """(kind, item, expected name is keyword?)"""
    out = [("unknown_keyword", D.kw("zzunknown", V.Rep([("num", "1")], 1, [])), False)]
    done = set()
    for s in V.slots(otype):
        if s.kind != "simple":
            continue
        kinds = {a.kind for a in s.alts}
        if kinds == {"enum"} and "enum" not in done:
            done.add("enum")
            out.append(("enum_miss", D.kw(s.key, V.Rep([("word", "ZZZ")], "ZZZ", [])), True))
        if kinds <= {"number", "integer"} and "range" not in done:
            for a in s.alts:
                if "minimum" in a.schema and a.schema.get("exclusiveMinimum") is not True:
                    done.add("range")
                    v = a.schema["minimum"] - 1
                    out.append(("range_low", D.kw(s.key, V.Rep([("num", str(v))], v, [])), True))
                    break
        if kinds == {"numlist"} and s.alts[0].integer and s.alts[0].n == 2 and "list" not in done:
            done.add("list")
            out.append(("list_item_float", D.kw(s.key, V.Rep([("num", "10.5"), ("num", "20")], [10.5, 20], [])), True))
        if kinds == {"string"} and "strtype" not in done:
            done.add("strtype")
            out.append(("number_for_string", D.kw(s.key, V.Rep([("num", "5")], 5, [])), True))
    return out


def run_faults(res, idx):
    label, tree = fault_docs()[idx]
    root = tree.type
    blocks = list(P.sub_blocks(tree))
    for lname, lkw in LAYOUTS[:4]:
        for bpath, b in blocks:
            faults = text_faults(b.type)
            if "type" in V.required(b.type):
                faults.append(("missing_required", None, False))
            for kind, item, on_key in faults:
                t2 = P.clone(tree)
                tb = P.get_block(t2, bpath)
                if kind == "missing_required":
                    idxs = [i for i, it in enumerate(tb.items) if it[0] == "kw" and it[1] == "type"]
                    if not idxs:
                        continue
                    del tb.items[idxs[0]]
                    fault_ref = None
                else:
                    # replace an existing occurrence of the keyword, else insert in the middle
                    pos = len(tb.items) // 2
                    same = [i for i, it in enumerate(tb.items) if it[0] == "kw" and it[1] == item[1]]
                    if same:
                        tb.items[same[0]] = item
                        pos = same[0]
                    else:
                        tb.items.insert(pos, item)
                    fault_ref = pos
                style = mk_style(t2, lkw)
                text, toks = D.render(t2, style)
                try:
                    d = impl.loads(text, include_position=True)
                    msgs = impl.validate(d, schema_name=root)
                except Exception as e:
                    R.add_outcome(res, "exc(judged by C07/C02)")
                    continue
                res["evals"] += 1
                # reference of the block in token refs = item-index path
                if on_key:
                    kt = [t for t in toks if t.ref == bpath + (fault_ref,) and t.role == "key"][0]
                    want = {(item[1].upper(), kt.line, kt.col)}
                else:
                    ot = [t for t in toks if t.ref == bpath and t.role == "opener"][0]
                    want = {(b.type.upper(), ot.line, ot.col)}
                got = {(m["message"].rsplit(" ", 1)[1], m.get("line"), m.get("column")) for m in msgs}
                if got == want:
                    R.add_outcome(res, "located")
                    res["states"].add(R.h64((text,)))
                else:
                    R.add_outcome(res, "mislocated")
                    depth = len(bpath)
                    how = "root" if depth == 0 else tree_how(tree, bpath)
                    R.add_violation(res, "location|%s in %s (%s)" % (kind, b.type, how),
                                    "validation message location %s, offending token at %s" % (sorted(got, key=repr), sorted(want)),
                                    {"text": text, "root": root, "want": sorted(want)}, {"document": label, "layout": lname})
    R.add_sub(res, "text-level faults x objects x layouts", res["evals"])
    R.add_sample(res, {"document": label, "objects": len(blocks)}, 1)


def run_dupkw(res):
    """a keyword written twice in one block: the value kept is the last one, and so must be the recorded position
    (also with a validation fault on the last occurrence only)"""
    for t in V.object_types():
        for s_ in V.slots(t):
            if s_.kind != "simple":
                continue
            reps = []
            for a in s_.alts:
                reps += V.reps_for(s_, a, valid_only=True)[:2]
            if len(reps) < 2:
                continue
            fill = S.filler_kws(t, 1, avoid=(s_.key,))
            tree = D.Block(t, [D.kw(s_.key, reps[0])] + fill + [D.kw(s_.key, reps[1])])
            for lname, lkw in LAYOUTS[:4]:
                check_tree(res, "DUPKW %s.%s" % (t, s_.key), tree, lname, lkw)
    # fault on the last occurrence: the message must point at it
    for t in V.object_types():
        for kind, item, on_key in text_faults(t):
            if not on_key:
                continue
            s_ = V.slot(t, item[1])
            good = None
            for a in s_.alts:
                r = V.reps_for(s_, a, valid_only=True)
                if r:
                    good = r[0]
                    break
            if good is None:
                continue
            b = S.min_block(t, 1)
            b.items = [it for it in b.items if not (it[0] == "kw" and it[1] == item[1])]
            b.items = [D.kw(item[1], good)] + b.items + [item]
            text, toks = D.render(b)
            try:
                d = impl.loads(text, include_position=True)
                msgs = impl.validate(d, schema_name=t)
            except Exception:
                continue
            res["evals"] += 1
            kt = [x for x in toks if x.ref == (len(b.items) - 1,) and x.role == "key"][0]
            want = (item[1].upper(), kt.line, kt.col)
            got = {(m["message"].rsplit(" ", 1)[1], m.get("line"), m.get("column")) for m in msgs}
            if want in got:
                R.add_outcome(res, "located")
                res["states"].add(R.h64(text))
            else:
                R.add_outcome(res, "mislocated")
                R.add_violation(res, "dupkw_location|%s in %s" % (kind, t), "the fault is on the last occurrence of %s at %s, messages point at %s" % (
                    item[1].upper(), want[1:], sorted(got, key=repr)), {"text": text, "root": t, "want": [list(want)], "subset": True}, None)
    R.add_sub(res, "keywords written twice: positions and error locations", res["evals"])


def run_rootlist(res):
    """several root blocks in one text, validated in ONE validate(list) call: every message must carry the position inside its own root"""
    for t in V.object_types():
        faults = text_faults(t)
        for kind, item, on_key in faults:
            for nroots in (2, 3):
                roots = []
                for i in range(nroots):
                    b = S.min_block(t, 1 + (i % 2))
                    same = [j for j, it in enumerate(b.items) if it[0] == "kw" and it[1] == item[1]]
                    if same:
                        b.items[same[0]] = item
                    else:
                        b.items.insert(min(i, len(b.items)), item)
                    roots.append(b)
                for lname, lkw in LAYOUTS[:3]:
                    text, toks = D.render(roots, mk_style(roots, lkw))
                    try:
                        d = impl.loads(text, include_position=True)
                        msgs = impl.validate(d, schema_name=t)
                    except Exception:
                        R.add_outcome(res, "exc(judged by C07/C02)")
                        continue
                    res["evals"] += 1
                    want = set()
                    for bi, b in enumerate(roots):
                        ref = (("root", bi),)
                        if on_key:
                            idx = [j for j, it in enumerate(b.items) if it is item][0]
                            kt = [x for x in toks if x.ref == ref + (idx,) and x.role == "key"][0]
                            want.add((item[1].upper(), kt.line, kt.col))
                        else:
                            ot = [x for x in toks if x.ref == ref and x.role == "opener"][0]
                            want.add((t.upper(), ot.line, ot.col))
                    got = {(m["message"].rsplit(" ", 1)[1], m.get("line"), m.get("column")) for m in msgs}
                    # other (pre-existing) messages, e.g. a missing required keyword, are object-level messages at the openers
                    got_rel = {g for g in got if g[0] == (item[1].upper() if on_key else t.upper())}
                    if want <= got and (not on_key or got_rel == want):
                        R.add_outcome(res, "located")
                        res["states"].add(R.h64(text))
                    else:
                        R.add_outcome(res, "mislocated")
                        R.add_violation(res, "rootlist|%s in %s x%d" % (kind, t, nroots), "validate(list of roots): message locations %s, offending tokens at %s" % (
                            sorted(got, key=repr), sorted(want)), {"text": text, "root": t, "want": sorted(want), "subset": True}, {"layout": lname})
    R.add_sub(res, "root lists x faults x layouts (one validate call for all roots)", res["evals"])


def tree_how(tree, bpath):
    b = tree
    how = "root"
    for i in bpath:
        how = b.items[i][0]
        b = b.items[i][2]
    return how


MULTILINE = [
    'MAP\n  NAME "two\nlines"\n  WEB\n    TEMPLATE "a\n\nb"\n    IMAGEPATH "x"\n  END\n  STATUS ON\nEND',
    "LAYER\n  DATA 'select *\n from t'\n  TYPE POINT\n  CLASS\n    NAME \"c\"\n  END\nEND",
]


def run_multiline(res):
    """strings spanning lines: positions of the tokens after them (own line/column count on the raw text)"""
    import re

    for text in MULTILINE:
        d = impl.loads(text, include_position=True)
        # expected: positions of the words NAME/WEB/TEMPLATE/... found by scanning the raw text outside strings
        want = {}
        line, col, i, n = 1, 1, 0, len(text)
        while i < n:
            c = text[i]
            if c in "\"'":
                j = text.index(c, i + 1) + 1
            elif c.isalpha():
                j = i
                while j < n and (text[j].isalnum() or text[j] == "_"):
                    j += 1
                want.setdefault(text[i:j].lower(), (line, col))
            else:
                j = i + 1
            for ch in text[i:j]:
                if ch == "\n":
                    line, col = line + 1, 1
                else:
                    col += 1
            i = j

        def walk(dd):
            pd = dd["__position__"]
            if pos_of(pd) != want[dd["__type__"]]:
                return "%s opener recorded at %s, is at %s" % (dd["__type__"], pos_of(pd), want[dd["__type__"]])
            for k, v in dd.items():
                if D.hidden(k):
                    continue
                if isinstance(v, dict):
                    m = walk(v)
                    if m:
                        return m
                elif isinstance(v, list) and v and isinstance(v[0], dict):
                    for x in v:
                        m = walk(x)
                        if m:
                            return m
                else:
                    if pos_of(pd[k]) != want[k]:
                        return "%s recorded at %s, is at %s" % (k, pos_of(pd[k]), want[k])
            return None

        m = walk(d)
        res["evals"] += 1
        if m:
            R.add_violation(res, "multiline|" + text[:30], "position after a multi-line string: " + m, {"text": text}, None)
        else:
            R.add_outcome(res, "exact")
            res["states"].add(R.h64(text))
    R.add_sub(res, "multi-line strings", len(MULTILINE))


WIDE_STRINGS = ["cafe\u0301", "a\u0300\u0301b \u212b\u2126", "\U0001F600 astral", "\uff57\uff49\uff44\uff45", "tab\there", "\u200bzero width", "\u00e9 composed"]


def run_widechars(res):
    """strings holding combining sequences, compatibility characters, astral and full-width characters FOLLOWED by further keywords on
    the same line: a column is a count of characters of the text as it was passed in"""
    for s in WIDE_STRINGS:
        rep = V.Rep([("str", s)], s, ["qstr"])
        cls = D.Block("class", [D.kw("name", rep), D.kw("title", rep), D.kw("group", V.Rep([("str", "g")], "g", ["qstr"]))])
        layer = D.Block("layer", [D.kw("name", rep), D.kw("type", V.Rep([("word", "POINT")], "POINT", ["word"])), D.kvblock("metadata", [(s, s, True, True), ("k", "v", True, True)]),
                                  D.children("classes", cls), D.kw("group", rep), D.kw("data", V.Rep([("str", "d")], "d", ["qstr"]))])
        for lname, lkw in LAYOUTS:
            check_tree(res, "WIDECHARS %r" % s, layer, lname, lkw)
    R.add_sub(res, "wide / combining / astral characters followed by further tokens on the line x layouts", res["evals"])


def run_config(res):
    """CONFIG lines (the one keyword stored as a dictionary without a position record of its own): whatever validate reports about a
    CONFIG setting - every name the MAP schema lists, each with an out-of-vocabulary value - must carry the line and column of a CONFIG
    keyword of the text"""
    from .. import schemaeval as SE

    names = sorted((SE.raw("map").get("properties", {}).get("config", {}) or {}).get("properties", {}) or {}) + ["ZZ_UNKNOWN"]
    for name in names:
        for value in ("zz bogus", "5", ""):
            for lname, lkw in LAYOUTS[:4]:
                lines = ["MAP", '  NAME "m"', '  CONFIG "%s" "%s"' % (name, value), '  CONFIG "MS_ERRORFILE" "stderr"', "  LAYER", "    TYPE POINT", "  END", "END"]
                nl = "\r\n" if lname == "crlf" else "\n"
                text = (" " if lname == "oneline" else nl).join(lines) + ("" if lname == "oneline" else nl)
                if lname == "tabs":
                    text = text.replace("  ", "\t")
                res["evals"] += 1
                try:
                    d = impl.loads(text, include_position=True)
                    msgs = impl.validate(d, schema_name="map")
                except Exception as e:
                    R.add_violation(res, "config_exc|%s|%s" % (name, lname), "%s: %s" % (impl.exc_name(e), str(e)[:100]), {"text": text}, None)
                    continue
                # where CONFIG keywords start in this text
                starts = set()
                for li, ln in enumerate(text.split("\n")):
                    col = 0
                    while True:
                        col = ln.find("CONFIG", col)
                        if col < 0:
                            break
                        starts.add((li + 1, col + 1))
                        col += 1
                bad = [m for m in msgs if not isinstance(m.get("line"), int) or not isinstance(m.get("column"), int)
                       or ("CONFIG" in m.get("message", "").upper() and (m["line"], m["column"]) not in starts)]
                if bad:
                    R.add_outcome(res, "unlocated")
                    R.add_violation(res, "config_location|%s|%r|%s" % (name, value, lname), "a validation message about a CONFIG line has no (or the wrong) line/column: %r" % (bad[0],),
                                    {"text": text, "config": True}, None)
                else:
                    R.add_outcome(res, "located_or_silent")
                    res["states"].add(R.h64(text))
    R.add_sub(res, "CONFIG settings x values x layouts", res["evals"])


def run_unit(unit):
    res = R.new_result()
    if unit[0] == "FAULTS":
        run_faults(res, unit[1])
        return res
    if unit[0] == "MULTILINE":
        run_multiline(res)
        return res
    if unit[0] == "ROOTLIST":
        run_rootlist(res)
        return res
    if unit[0] == "DUPKW":
        run_dupkw(res)
        return res
    if unit[0] == "WIDECHARS":
        run_widechars(res)
        return res
    if unit[0] == "CONFIG":
        run_config(res)
        return res
    if unit[0] == "DEV":
        run_dev(res, unit[1])
        return res
    n = 0
    for label, tree in S.iter_unit(unit):
        for lname, lkw in LAYOUTS:
            check_tree(res, label, tree, lname, lkw)
        n += 1
        if n == 1:
            R.add_sample(res, {"label": label, "layouts": [l for l, _ in LAYOUTS], "text": D.render(tree, mk_style(tree, LAYOUTS[4][1]))[0]}, 1)
    R.add_sub(res, unit[0] + " x layouts", res["evals"])
    return res


def describe(tier):
    return {"rule": "case = (document, layout) or (document, object, fault kind, layout); state = distinct text",
            "bounds": dict(V.summary(), layouts=[l for l, _ in LAYOUTS], gap_deviation_kinds=GAP_KINDS if tier == "thorough" else "thorough tier only",
                           fault_documents=len(fault_docs()))}


def replay(case):
    if "tree" in case and "layout" in case:
        tree = D.undescribe(case["tree"])
        lkw = dict(LAYOUTS)[case["layout"]]
        cat, msg, text = judge(tree, mk_style(tree, lkw))
        return {"category": cat, "message": msg, "text": text} if cat == "position" else None
    if "want" in case:
        import mappyfile

        d = mappyfile.loads(case["text"], include_position=True)
        from mappyfile.validator import Validator

        msgs = Validator().validate(d, schema_name=case["root"])
        got = sorted([m["message"].rsplit(" ", 1)[1], m.get("line"), m.get("column")] for m in msgs)
        if case.get("subset"):
            return None if all(list(w) in got for w in case["want"]) else {"got": got, "want": case["want"]}
        return {"got": got, "want": case["want"]} if got != [list(w) for w in case["want"]] else None
    if case.get("config"):
        import mappyfile

        msgs = mappyfile.validate(mappyfile.loads(case["text"], include_position=True))
        bad = [m for m in msgs if not isinstance(m.get("line"), int) or not isinstance(m.get("column"), int)]
        return {"messages_without_location": bad} if bad else None
    return None
