"""C12 - calls are pure, history-independent and safe to run concurrently."""
from __future__ import annotations

import copy
import itertools
import os
import tempfile

from .. import runner as R
from .. import vocab as V
from .. import docmodel as D
from .. import spaces as S
from .. import corpus
from .. import impl
from .. import modstate

ID = "C12"
LEVEL_TEXT = ("(purity) every public call on every S1/S4/corpus dictionary with a type-strict deep snapshot of the arguments before/after; "
              "(histories) all operation sequences from fresh worker objects to depth 2/3 plus every window of 3/4 consecutive operations in one "
              "long de-Bruijn history on reused Parser/MapfileToDict/PrettyPrinter/Validator objects, each answer compared with the fresh-object answer; "
              "(schedules) stateless pre-emption-bounded exploration of all interleavings of pairs (and a triple) of public API calls under a "
              "deterministic scheduler on sys.monitoring events of the mappyfile code, each thread's result compared with the sequential result")
ASSUMPTIONS = [
    "scheduling points are the LINE (or PY_START/PY_RETURN) events of mappyfile code objects only; third-party code (lark, jsonschema, jsonref) is atomic",
    "2-3 threads and <= 1 (line granularity) / <= 2 (call granularity) pre-emptions instead of 16 free-running threads",
    "a failing schedule is re-run twice and must fail identically before it is reported; divergence while replaying is a harness error (exit 2)",
]

def init_worker():
    modstate.snapshot()      # before anything of the implementation has run in this process


# ------------------------------------------------------------------ documents used by histories and schedules
DOC_A = 'MAP # first map\n  NAME "a" # name comment\n  LAYER # lyr\n    TYPE POINT\n    NAME "l" # lname\n  END\nEND'
DOC_B = '# header b\nMAP\n  NAME "b" # other\n  WEB # web comment\n    IMAGEPATH "/x"\n  END\nEND'
DOC_C = 'LAYER NAME "nocomment" TYPE LINE CLASS STYLE COLOR 1 2 3 END END END'
DOC_BAD = 'MAP NAME "x" LAYER TYPE END END'
DOC_BAD2 = 'MAP # kept?\n  NAME "x" # c2\n  /* c3 */ FOO\nEND'
DOC_D = 'MAP\n  NAME "d" # n\n  # dangling comment before the end\nEND # after the end\n# and one more line\n'
# two documents that differ only in the spelling of equal numbers (1 / 1.0, 0 / 0.0 / -0.0): equal and hash-equal values of different
# types are what a value-keyed cache confuses
DOC_E1 = 'MAP EXTENT 0 0 1 1 SYMBOL NAME "s" TYPE VECTOR POINTS 1 1 0 0 2 2 END END LAYER TYPE POINT CLASS STYLE SIZE 1 PATTERN 1 1 END OFFSET 0 0 END END END END'
DOC_E2 = 'MAP EXTENT 0.0 -0.0 1.0 1.0 SYMBOL NAME "s" TYPE VECTOR POINTS 1.0 1.0 0.0 -0.0 2 2.0 END END LAYER TYPE POINT CLASS STYLE SIZE 1.0 PATTERN 1.0 1.0 END OFFSET 0.0 -0.0 END END END END'
# every kind of mutable value a loaded dictionary holds (lists of strings, numbers, pairs; nested key-value blocks): the op 'parse_ns' edits
# all of them in place after the result was recorded - the caller owns what loads returned
DOC_P = ('MAP EXTENT 0 0 1 1 PROJECTION "init=epsg:4326" "no_defs" END CONFIG "A" "b" SYMBOL NAME "s" POINTS 1 1 2 2 END END LAYER TYPE POINT PROCESSING "A=1" PROCESSING "B=2" '
         'PROJECTION "init=epsg:4326" "no_defs" END METADATA "k" "v" END CLASS STYLE COLOR 1 2 3 PATTERN 1 2 END END END END END')
DOC_INVALID = 'MAP NAME "m" DATAPATTERN "x" LAYER NAME "l" ENCODING "u" END END'


def shorten(x):
    return D.typed(x) if isinstance(x, (dict, list)) else x


# ------------------------------------------------------------------ purity
def units(tier):
    us = []
    # schedules first: they are the slowest units
    pairs = sched_pairs(tier)
    for pi in range(len(pairs)):
        gran, bound = pairs[pi][2], pairs[pi][3]
        k = 16 if gran in ("line", "call-all") or bound == 2 else 8
        us += [("SCHED", pi, s, k) for s in range(k)]
    us += [("HISTFRESH", 2 if tier == "quick" else 3, i) for i in range(len(hist_ops()))]
    us += [("DEBRUIJN", 3 if tier == "quick" else 4, i, 16) for i in range(16)]
    us += [("PURE_S6", i) for i in range(8)]
    us += [("PURE", t) for t in V.object_types()] + [("PURE_S4", i) for i in range(16)]
    us += [("PURE_CMT", i) for i in range(16)]
    return us


def commented_docs(shard):
    """every line of every rich document x every ordered pair of comment kinds written on two lines of their own above
    that line, plus a trailing '#' comment on it: the comment lists the loader attaches hold two or three entries"""
    from .. import optsweep as O
    from . import c14

    kinds = ["#", "/**/", "2line"]
    n = 0
    for label, tree in O.rich_docs():
        if isinstance(tree, list):
            continue
        lines = D.render(tree)[0].split("\n")
        for i, ln in enumerate(lines):
            if not ln.strip():
                continue
            ind = ln[: len(ln) - len(ln.lstrip())]
            for ka in kinds:
                for kb in kinds:
                    n += 1
                    if n % 16 != shard:
                        continue
                    new = lines[:i] + [ind + c14.comment_text(ka, 1), ind + c14.comment_text(kb, 2), ln + " " + c14.comment_text("#", 3)] + lines[i + 1:]
                    yield "%s line %d %s,%s" % (label, i, ka, kb), "\n".join(new)


PURE_OPTS = [dict(), dict(indent=2, quote="'", newlinechar="\r\n", end_comment=True, align_values=True), dict(indent=0, spacer="\t")]


def purity_calls(d, flags, public):
    """yield (name, thunk) calls that must not modify d; public=True goes through the module-level API
    (fresh worker objects per call, ~50 ms), otherwise through reused worker objects (same code path)"""
    import io

    import mappyfile

    for i, o in enumerate(PURE_OPTS):
        if public:
            yield "dumps#%d" % i, (lambda o=o: mappyfile.dumps(d, **o))
        else:
            yield "dumps#%d" % i, (lambda o=o: impl.dumps(d, **o))
    if public:
        yield "dump", (lambda: mappyfile.dump(d, io.StringIO()))
    if isinstance(d, dict) and d.get("__type__") == "map":
        if public:
            yield "validate", (lambda: mappyfile.validate(d))
            yield "validate@7.6", (lambda: mappyfile.validate(d, 7.6))
        else:
            yield "validate@7.6", (lambda: impl.validate(d, version=7.6))
    if isinstance(d, dict):
        yield "Validator.validate", (lambda: impl.validator().validate(d, schema_name=d.get("__type__", "map")))
        for k, v in list(d.items()):
            if isinstance(v, list) and v and isinstance(v[0], dict):
                yield "find %s" % k, (lambda v=v: mappyfile.find(v, "name", "zz-not-there"))
                yield "findall %s" % k, (lambda v=v: mappyfile.findall(v, "group", "zz-not-there"))
                yield "findunique %s" % k, (lambda v=v: mappyfile.findunique(v, "template"))
                yield "findkey %s" % k, (lambda k=k: mappyfile.findkey(d, k, 0))


def run_pure(res, docs, public=False, flag_sets=({}, {"include_position": True}, {"include_comments": True, "include_position": True})):
    for label, text in docs:
        for flags in flag_sets:
            try:
                d = impl.loads(text, **flags)
            except Exception:
                R.add_outcome(res, "unparsed")
                continue
            snap = D.typed(d)
            for name, thunk in purity_calls(d, flags, public):
                res["evals"] += 1
                try:
                    thunk()
                except Exception:
                    R.add_outcome(res, "call_raised(judged elsewhere)")
                if D.typed(d) != snap:
                    R.add_outcome(res, "argument_modified")
                    R.add_violation(res, "impure|%s|%s" % (name.split("#")[0], label if len(label) < 60 else label[:60]),
                                    "%s modified the dictionary passed to it" % name, {"text": text, "flags": flags, "call": name}, None)
                    d = impl.loads(text, **flags)
                    snap = D.typed(d)
                else:
                    R.add_outcome(res, "pure")
            res["states"].add(R.h64(snap))
    R.add_sub(res, "purity: calls x documents x load flags", res["evals"])


# ------------------------------------------------------------------ histories on reused worker objects
def hist_ops():
    return [
        ("parse_c", DOC_A), ("parse_c", DOC_B), ("parse_c", DOC_C), ("parse_c", DOC_BAD), ("parse_c", DOC_BAD2), ("parse_c", DOC_D),
        ("parse_n", DOC_A), ("parse_n", DOC_BAD), ("parse_np", DOC_B), ("parse_n", DOC_E1), ("parse_n", DOC_E2), ("parse_n", DOC_P), ("parse_ns", DOC_P),
        ("parse_file", "a"), ("parse_file", "b"), ("parse_text_inc", 'MAP\n  INCLUDE "inc.map"\nEND\n'),
        ("print", DOC_A), ("print", DOC_E1), ("print", DOC_E2), ("print", DOC_INVALID), ("print_c", DOC_B), ("print_sc", DOC_C),
        ("validate", DOC_A, None), ("validate", DOC_INVALID, 7.6), ("validate", DOC_INVALID, 8.2),
    ]


class Workers:
    def __init__(self):
        from mappyfile.parser import Parser
        from mappyfile.pprint import PrettyPrinter
        from mappyfile.transformer import MapfileToDict
        from mappyfile.validator import Validator

        self.pc = Parser(expand_includes=False, include_comments=True)
        self.pn = Parser(expand_includes=False, include_comments=False)
        self.tc = MapfileToDict(include_comments=True)
        self.tn = MapfileToDict()
        self.tp = MapfileToDict(include_position=True)
        self.pp = PrettyPrinter()
        self.v = Validator()
        self.pi = Parser(expand_includes=True)


def do_op(w, op):
    try:
        if op[0] == "parse_c":
            return ("ok", D.typed(w.tc.transform(w.pc.parse(op[1]))))
        if op[0] == "parse_n":
            return ("ok", D.typed(w.tn.transform(w.pn.parse(op[1]))))
        if op[0] == "parse_ns":
            d = w.tn.transform(w.pn.parse(op[1]))
            out = ("ok", D.typed(d))
            _scribble(d)
            return out
        if op[0] == "parse_file":
            # a named file (relative INCLUDEs resolve against its directory)
            return ("ok", D.typed(w.tn.transform(w.pi.parse_file(inc_roots()[op[1]]))))
        if op[0] == "parse_text_inc":
            # a plain string with a relative INCLUDE: resolves against the working directory (directory b), whatever was parsed before
            cwd = os.getcwd()
            os.chdir(os.path.dirname(inc_roots()["b"]))
            try:
                return ("ok", D.typed(w.tn.transform(w.pi.parse(op[1]))))
            finally:
                os.chdir(cwd)
        if op[0] == "parse_np":
            return ("ok", D.typed(w.tp.transform(w.pn.parse(op[1]))))
        if op[0] == "print":
            return ("ok", w.pp.pprint(w.tn.transform(w.pn.parse(op[1]))))
        if op[0] == "print_c":
            return ("ok", w.pp.pprint(w.tc.transform(w.pc.parse(op[1]))))
        if op[0] == "print_sc":
            return ("ok", w.pp.pprint(w.tn.transform(w.pn.parse(op[1]))))
        if op[0] == "validate":
            d = w.tp.transform(w.pn.parse(op[1]))
            return ("ok", [(m["message"], m.get("line"), m.get("column")) for m in w.v.validate(d, version=op[2])])
    except Exception as e:
        return ("exc", type(e).__name__)
    raise ValueError(op)


def _scribble(d):
    if isinstance(d, dict):
        for v in list(d.values()):
            _scribble(v)
        d["zz_scribbled"] = "by the caller"
    elif isinstance(d, list):
        for v in d:
            _scribble(v)
        d.append("scribbled")
        if not isinstance(d[0], (dict, list)):
            d[0] = "scribbled"


_fresh = {}


def fresh(op):
    if op not in _fresh:
        modstate.restore()
        _fresh[op] = do_op(Workers(), op)
    return _fresh[op]


def run_hist_fresh(res, depth, first):
    ops = hist_ops()
    for L in range(1, depth + 1):
        for tail in itertools.product(range(len(ops)), repeat=L - 1):
            hist = (first,) + tail
            modstate.restore()
            w = Workers()
            res["evals"] += 1
            bad = None
            for step, oi in enumerate(hist):
                a = do_op(w, ops[oi])
                if a != fresh(ops[oi]):
                    bad = (step, a)
                    break
            if bad:
                h = hist[: bad[0] + 1]
                names = ["%s(%s)" % (ops[i][0], doc_name(ops[i])) for i in h]
                R.add_outcome(res, "history_dependent")
                R.add_violation(res, "history|" + ";".join(names), "reused worker objects answer differently from fresh ones after this history: %r vs %r" % (
                    str(bad[1])[:200], str(fresh(ops[h[-1]]))[:200]), {"history": [list(map(str, ops[i])) for i in h]}, None)
            else:
                R.add_outcome(res, "history_independent")
                res["states"].add(R.h64(hist))
    R.add_sub(res, "histories from fresh worker objects, depth<=%d" % depth, res["evals"])
    if first == 0:
        R.add_sample(res, {"history": [[o[0], doc_name(o)] for o in (ops[i] for i in hist)]}, 1)


def doc_name(op):
    return {DOC_A: "A", DOC_B: "B", DOC_C: "C", DOC_D: "D", DOC_BAD: "BAD", DOC_BAD2: "BAD2", DOC_INVALID: "INVALID", DOC_E1: "E1", DOC_E2: "E2", DOC_P: "P", "a": "a/root.map", "b": "b/root.map", 'MAP\n  INCLUDE "inc.map"\nEND\n': "text with INCLUDE"}.get(op[1], "?") + ("" if len(op) < 3 else "@%s" % op[2])


def de_bruijn(k, n):
    """de Bruijn sequence B(k, n) as a list of symbols"""
    a = [0] * k * n
    seq = []

    def db(t, p):
        if t > n:
            if n % p == 0:
                seq.extend(a[1: p + 1])
        else:
            a[t] = a[t - p]
            db(t + 1, p)
            for j in range(a[t - p] + 1, k):
                a[t] = j
                db(t + 1, t)

    db(1, 1)
    return seq + seq[: n - 1]


def run_debruijn(res, order, shard=0, nshards=1):
    """one long history in which every window of `order` consecutive operations occurs (a de Bruijn sequence), cut into nshards pieces that
    overlap by order-1 operations, each piece on its own reused worker objects"""
    ops = hist_ops()
    seq = de_bruijn(len(ops), order)
    size = (len(seq) + nshards - 1) // nshards
    lo, hi = shard * size, min(len(seq), (shard + 1) * size)
    piece = seq[max(0, lo - (order - 1)): hi]
    searches = 0
    w = Workers()
    for i, oi in enumerate(piece):
        a = do_op(w, ops[oi])
        res["evals"] += 1
        if a != fresh(ops[oi]):
            R.add_outcome(res, "history_dependent")
            # the cause may lie further back than the window: the shortest suffix of the history so far that reproduces the wrong answer on
            # fresh worker objects is reported as a replayable history (at most 3 such searches per piece)
            found = None
            if searches < 3:
                searches += 1
                for klen in range(1, min(i + 1, 24) + 1):
                    h = piece[i - klen + 1: i + 1]
                    modstate.restore()
                    w2 = Workers()
                    last = None
                    for oj in h:
                        last = do_op(w2, ops[oj])
                    if last != fresh(ops[h[-1]]):
                        found = h
                        break
            if found:
                names = ["%s(%s)" % (ops[j][0], doc_name(ops[j])) for j in found]
                R.add_violation(res, "history|" + ";".join(names), "reused worker objects answer differently from fresh ones after this history (found inside the long history)",
                                {"history": [list(map(str, ops[j])) for j in found]}, None)
            else:
                window = piece[max(0, i - order + 1): i + 1]
                names = ["%s(%s)" % (ops[j][0], doc_name(ops[j])) for j in window]
                R.add_violation(res, "window|" + ";".join(names), "in a long history on reused worker objects this window answers differently from fresh objects "
                                "(the cause may lie before the window: see the history| violations of the same run)", {"window": names, "position": lo + i}, None)
            w = Workers()
        else:
            R.add_outcome(res, "history_independent")
    res["states"].add(R.h64(("debruijn", order, len(seq), shard)))
    R.add_sub(res, "every window of %d consecutive operations (de Bruijn history of %d calls, piece %d/%d)" % (order, len(seq), shard + 1, nshards), len(piece))


# ------------------------------------------------------------------ schedules
def api_calls():
    """name -> thunk factory (fresh arguments per execution)"""
    import mappyfile

    tmpdir = _tmpdir()
    fn = os.path.join(tmpdir, "c12.map")
    if not os.path.exists(fn):
        with open(fn, "w", encoding="utf-8") as f:
            f.write(DOC_B)
    roots = inc_roots()
    dA = mappyfile.loads(DOC_A)
    dI = mappyfile.loads(DOC_INVALID)
    dL = mappyfile.loads('MAP LAYER NAME "a" GROUP "g" TYPE POINT END LAYER NAME "b" TYPE POINT END END')
    dS = mappyfile.loads('SYMBOL NAME "s" TYPE ELLIPSE ANCHORPOINT 0.5 0.5 FILLED TRUE TRANSPARENT 5 END')
    dLs = mappyfile.loads('LAYER NAME "x y" DATA "a b" CONNECTION "host=db user=web" CLASS NAME "c d" END END')
    dW = mappyfile.loads('MAP NAME "m" SHAPEPATH "/a b" LAYER NAME "l" MAXSCALEDENOM 25000 TYPE POINT END END')   # alignment columns 12 and 16 (dA: 8)
    dSs = mappyfile.loads('SYMBOL NAME "s t" IMAGE "a b.png" CHARACTER "q r" END')
    from mappyfile.validator import Validator
    return {
        "loads": lambda: D.typed(mappyfile.loads(DOC_C)),
        "loads_comments_A": lambda: D.typed(mappyfile.loads(DOC_A, include_comments=True)),
        "loads_comments_B": lambda: D.typed(mappyfile.loads(DOC_B, include_comments=True, include_position=True)),
        "loads_failing": lambda: D.typed(mappyfile.loads(DOC_BAD2, include_comments=True)),
        "loads_comments_D": lambda: D.typed(mappyfile.loads(DOC_D, include_comments=True)),
        "dumps": lambda: mappyfile.dumps(copy.deepcopy(dA), indent=2, end_comment=True),
        "dumps_default": lambda: mappyfile.dumps(copy.deepcopy(dI)),
        # same option set, different root types (free strings that must stay quoted): state shared per option set shows here
        "dumps_layer_s": lambda: mappyfile.dumps(copy.deepcopy(dLs)),
        "dumps_symbol_s": lambda: mappyfile.dumps(copy.deepcopy(dSs)),
        # same indent/spacer/quote/newline, different switches and different alignment columns
        "dumps_align_a": lambda: mappyfile.dumps(copy.deepcopy(dA), align_values=True, end_comment=True),
        "dumps_align_l": lambda: mappyfile.dumps(copy.deepcopy(dW), align_values=True, end_comment=True),
        "validate_7.6": lambda: [m["message"] for m in mappyfile.validate(copy.deepcopy(dI), 7.6)],
        "validate_8.0": lambda: [m["message"] for m in mappyfile.validate(copy.deepcopy(dI), 8.0)],
        # a small schema (12 keywords, 4 of them version-annotated): every call event is a scheduling point
        "validate_symbol_6.0": lambda: [m["message"] for m in Validator().validate(copy.deepcopy(dS), schema_name="symbol", version=6.0)],
        "findall": lambda: [x["name"] for x in mappyfile.findall(dL["layers"], "group", "g")] + [D.typed(dL)],
        "open": lambda: D.typed(mappyfile.open(fn, include_comments=True)),
        "open_inc_a": lambda: D.typed(mappyfile.open(roots["a"])),
        "open_inc_b": lambda: D.typed(mappyfile.open(roots["b"])),
    }


_td = None


def inc_roots():
    """two root Mapfiles in different directories, each including files of the same relative names"""
    tmpdir = _tmpdir()
    roots = {}
    for sub in ("a", "b"):
        os.makedirs(os.path.join(tmpdir, sub), exist_ok=True)
        roots[sub] = os.path.join(tmpdir, sub, "root.map")
        if not os.path.exists(roots[sub]):
            with open(os.path.join(tmpdir, sub, "inc.map"), "w", encoding="utf-8") as f:
                f.write('NAME "%s"\nINCLUDE "inc2.map"\n' % sub)
            with open(os.path.join(tmpdir, sub, "inc2.map"), "w", encoding="utf-8") as f:
                f.write('LAYER NAME "layer_%s" TYPE POINT END\n' % sub)
            with open(roots[sub], "w", encoding="utf-8") as f:
                f.write('MAP\n  INCLUDE "inc.map"\nEND\n')
    return roots


def _tmpdir():
    global _td
    if _td is None:
        import atexit
        import shutil

        _td = tempfile.mkdtemp(prefix="mcf_c12_")
        atexit.register(shutil.rmtree, _td, True)
    return _td


def sched_pairs(tier):
    """(names tuple, label, granularity, bound)"""
    q = [
        (("loads_comments_A", "loads_comments_B"), "line", 1),
        (("loads_comments_A", "loads_comments_D"), "call", 1),
        (("loads_comments_A", "loads_failing"), "call", 1),
        (("validate_7.6", "validate_8.0"), "call", 1),
        (("validate_7.6", "validate_7.6"), "call", 1),
        (("validate_symbol_6.0", "validate_symbol_6.0"), "call-all", 1),
        (("dumps", "dumps_default"), "call", 1),
        (("loads", "open"), "call", 1),
        (("dumps_align_a", "dumps_default"), "call", 1),
        (("dumps_align_a", "dumps_align_l"), "call", 1),
        (("dumps_layer_s", "dumps_symbol_s"), "call", 2),
        (("open_inc_a", "open_inc_b"), "call", 1),
    ]
    if tier == "thorough":
        names = ["loads", "loads_comments_A", "loads_comments_B", "loads_comments_D", "loads_failing", "dumps", "validate_7.6", "validate_8.0", "findall", "open"]
        q = []
        for a, b in itertools.combinations_with_replacement(names, 2):
            q.append(((a, b), "line", 1))
        q.append((("loads_comments_A", "loads_comments_B"), "call", 2))
        q.append((("validate_7.6", "validate_8.0"), "call", 2))
        q.append((("validate_symbol_6.0", "validate_symbol_6.0"), "call-all", 2))
        q.append((("loads_comments_A", "loads_comments_B", "open"), "call", 1))
        q.append((("open_inc_a", "open_inc_b"), "line", 1))
        q.append((("dumps_align_a", "dumps_default"), "line", 1))
        q.append((("dumps_align_a", "dumps_align_l"), "line", 1))
        q.append((("dumps_layer_s", "dumps_symbol_s"), "call", 2))
        q.append((("dumps_layer_s", "dumps_symbol_s"), "line", 2))
    return [(names, "+".join(names), g, b) for names, g, b in q]


def run_sched(res, pi, shard, nshards, tier):
    from .. import sched

    names, label, gran, bound = sched_pairs(tier)[pi]
    calls = api_calls()
    seq = [sched_result(calls[n]) for n in names]

    def mk():
        return [calls[n] for n in names]

    def judge(results):
        for n, got, want in zip(names, results, seq):
            if got != want:
                return "thread %s: result under this schedule differs from the sequential result (%s vs %s)" % (n, str(got)[:160], str(want)[:160])
        return None

    if tier == "quick":
        sched.MAX_PER_LABEL[0] = 2 if (gran == "line" or bound >= 2) else 3
    else:
        sched.MAX_PER_LABEL[0] = 2 if bound >= 2 else (4 if gran == "line" else 8)
    if gran == "call-all":
        gran = "call"
        sched.MAX_PER_LABEL[0] = None       # small harness: every event is a scheduling point
    out = sched.explore(mk, gran, bound, judge, shard, nshards)
    res["evals"] += out["executions"]
    for k in out["outcomes"]:
        res["states"].add(R.h64((label, k)))
    R.add_outcome(res, "schedules_sequentially_consistent", out["executions"] - len(out["violations"]))
    if out["capped"]:
        res["caps"].append("schedule horizon reached for %s" % label)
    for choices, msg, labels in out["violations"][:5]:
        R.add_outcome(res, "schedule_violation")
        R.add_violation(res, "schedule|%s|%s" % (label, gran), msg + " | first switch after %r" % (labels[-2:],),
                        {"calls": list(names), "granularity": gran, "schedule": choices, "max_per_label": sched.MAX_PER_LABEL[0]}, None)
    R.add_sub(res, "schedules %s gran=%s preemptions<=%d (max %d points)" % (label, gran, bound, out["max_points"]), out["executions"])
    if shard == 0:
        R.add_sample(res, {"calls": list(names), "granularity": gran, "bound": bound, "points_in_default_schedule": out["max_points"],
                           "distinct_outcomes": len(out["outcomes"])}, 1)


def sched_result(thunk):
    modstate.restore()
    try:
        return ("ok", thunk())
    except BaseException as e:
        return ("exc", type(e).__name__, str(e)[:200])


def run_unit(unit):
    res = R.new_result()
    k = unit[0]
    if k == "SCHED":
        tier = "thorough" if len(sched_pairs("quick")) <= unit[1] or sched_pairs("quick")[unit[1]][2] != _tier_gran(unit) else "quick"
        run_sched(res, unit[1], unit[2], unit[3], _TIER[0])
    elif k == "HISTFRESH":
        run_hist_fresh(res, unit[1], unit[2])
    elif k == "DEBRUIJN":
        run_debruijn(res, unit[1], unit[2], unit[3])
    elif k == "PURE":
        run_pure(res, [(label, D.render(tree)[0]) for label, tree in S.s1(unit[1])])
    elif k == "PURE_S4":
        from .. import optsweep as O

        docs = [(label, D.render(tree)[0]) for label, tree in list(S.s4()) + list(S.root_lists()) + O.rich_docs() + O.shape_docs()]
        run_pure(res, docs[unit[1]::16], public=True)
    elif k == "PURE_CMT":
        run_pure(res, list(commented_docs(unit[1])), flag_sets=({"include_comments": True}, {"include_comments": True, "include_position": True}))
    elif k == "PURE_S6":
        docs = []
        for f in corpus.files()[unit[1]::8]:
            t = corpus.read(f)
            if t is not None:
                docs.append((f.replace(R.REPO + "/", ""), t))
        run_pure(res, docs)
    return res


_TIER = ["quick"]


def _tier_gran(unit):
    return None


_units = units


def units(tier):  # noqa: F811  (records the tier for the workers: forked after this call)
    _TIER[0] = tier
    return _units(tier)


def describe(tier):
    return {"rule": "purity: case = (call, document, load flags); histories: case = operation sequence on one set of worker objects; "
                    "schedules: case = one complete interleaving (list of choices) of the harness; state = distinct observation / outcome",
            "bounds": {"history_operations": len(hist_ops()), "fresh_history_depth": 2 if tier == "quick" else 3, "window_length": 3 if tier == "quick" else 4,
                       "schedule_harnesses": [(l, g, b) for _, l, g, b in sched_pairs(tier)], "threads": "2 (one 3-thread harness in the thorough tier)",
                       "scheduling_points_per_thread_and_code_location": "3 (call granularity) / 2 (line granularity)" if tier == "quick" else "8 (call) / 4 (line) / 2 (two pre-emptions)"}}


def replay(case):
    if "schedule" in case:
        from .. import sched

        calls = api_calls()
        names = case["calls"]
        seq = [sched_result(calls[n]) for n in names]
        sched.MAX_PER_LABEL[0] = case.get("max_per_label")
        r = sched.run_schedule(lambda: [calls[n] for n in names], case["schedule"], case["granularity"])
        if r["deadlock"]:
            return {"deadlock": True}
        bad = [n for n, g, w in zip(names, r["results"], seq) if g != w]
        return {"threads_with_wrong_result": bad} if bad else None
    if "history" in case:
        w = Workers()
        for op in case["history"]:
            o = tuple(None if x == "None" else (float(x) if x.replace(".", "").isdigit() and len(op) == 3 and x is op[2] else x) for x in op)
            a = do_op(w, o)
            if a != fresh(o):
                return {"op": op, "reused": str(a)[:300], "fresh": str(fresh(o))[:300]}
    return None
