"""C20 - file, stream and command-line front ends agree with the string API."""
from __future__ import annotations

import io
import itertools
import json
import os
import shutil
import subprocess
import tempfile

from .. import runner as R
from .. import docmodel as D
from .. import optsweep as O
from .. import impl

ID = "C20"
LEVEL_TEXT = ("exhaustive enumeration: (a) every Unicode scalar value U+0020..U+10FFFF (surrogates, the quote and CR excepted) plus TAB and LF inside "
              "string values through save->open, dump->load and dumps->loads of the public API; (b) the mappyfile CLI as real subprocesses: format "
              "over all 160 option combinations, validate over every subset (size <= 3) of {valid, invalid, unparseable, missing} files x versions and "
              "over error counts around the exit-status boundaries, schema export for boundary versions")
ASSUMPTIONS = ["CR inside strings is excluded: text-mode reading folds it (line-ending surface syntax)",
               "CLI = /venv/bin/mappyfile run as a subprocess with cwd in a scratch directory"]

CLI = "/venv/bin/mappyfile"
BLOCK = 256
BLOCKS_PER_DOC = 16


def code_point_blocks():
    out = []
    for start in range(0, 0x110000, BLOCK):
        chars = []
        for cp in range(start, start + BLOCK):
            if 0xD800 <= cp <= 0xDFFF or cp < 0x20 or cp == 0x22:
                continue
            chars.append(chr(cp))
        if start == 0:
            chars = ["\t", "\n"] + chars
        if chars:
            out.append((start, "".join(chars)))
    return out


def units(tier):
    nblocks = len(code_point_blocks())
    ndocs = (nblocks + BLOCKS_PER_DOC - 1) // BLOCKS_PER_DOC
    us = [("FORMAT", tier, i) for i in range(16)] + [("VALIDATE", tier, i) for i in range(8)] + [("SCHEMA",)]
    us += [("UNICODE", i, 16) for i in range(16)]
    return us


# ------------------------------------------------------------------ (a) unicode
def run_unicode(res, shard, nshards):
    import mappyfile

    blocks = code_point_blocks()
    docs = [blocks[i:i + BLOCKS_PER_DOC] for i in range(0, len(blocks), BLOCKS_PER_DOC)]
    tmp = tempfile.mkdtemp(prefix="mcf_c20_")
    try:
        for di, doc in enumerate(docs):
            if di % nshards != shard:
                continue
            d = impl.loads("MAP END")
            d["layers"] = []
            for start, s in doc:
                lyr = impl.loads('LAYER TYPE POINT END')
                lyr["name"] = s
                lyr["metadata"]["k"] = s
                d["layers"].append(lyr)
            def T(x):
                return D.typed(D.strip_hidden(x, keep=()))

            want = T(d)
            fn = os.path.join(tmp, "u.map")
            outs = {}
            try:
                text = mappyfile.dumps(d)
                outs["dumps->loads"] = T(mappyfile.loads(text))
                mappyfile.save(d, fn)
                outs["save->open"] = T(mappyfile.open(fn))
                with open(fn, "rb") as f:
                    raw = f.read()
                outs["save bytes == dumps utf-8"] = want if raw == text.encode("utf-8") else "bytes differ"
                buf = io.StringIO()
                mappyfile.dump(d, buf)
                outs["dump chars == dumps"] = want if buf.getvalue() == text else "chars differ"
                with open(fn, encoding="utf-8") as fp:
                    outs["save->load"] = T(mappyfile.load(fp))
            except Exception as e:
                outs["exception"] = "%s: %s" % (type(e).__name__, str(e)[:100])
            res["evals"] += len(outs)
            bad = [k for k, v in outs.items() if v != want]
            if not bad:
                R.add_outcome(res, "unicode_roundtrip_ok", len(outs))
                res["states"].add(R.h64(di))
                continue
            # locate offending code points with the reused workers (bounded: at most 64 single-character probes per string)
            culprits = []
            for start, s in doc:
                probes = 0
                for ch in s:
                    if probes >= 64 or len(culprits) > 5:
                        break
                    probes += 1
                    if not survives(None, ch, fn):
                        culprits.append("U+%04X" % ord(ch))
            R.add_outcome(res, "unicode_roundtrip_fails")
            R.add_violation(res, "unicode|%s|%s" % (",".join(bad), ",".join(culprits[:6]) or "block %04X" % doc[0][0]),
                            "string values do not survive %s (code points %s)" % (bad, culprits[:6]), {"block_start": doc[0][0], "culprits": culprits[:6]}, None)
    finally:
        shutil.rmtree(tmp, ignore_errors=True)
    R.add_sub(res, "code point blocks (256 per string, %d strings per document) x 5 round trips" % BLOCKS_PER_DOC, res["evals"])
    if shard == 0:
        R.add_sample(res, {"code_points": "U+0020..U+10FFFF minus surrogates, '\"', plus TAB, LF", "blocks": len(blocks), "documents": len(docs)}, 1)


def survives(_, ch, fn):
    try:
        d = impl.loads("MAP END")
        d["name"] = "a" + ch + "b"
        return impl.loads(impl.dumps(d))["name"] == d["name"]
    except Exception:
        return False


# ------------------------------------------------------------------ (b) CLI
def run_cli(args, cwd):
    env = dict(os.environ, PYTHONHASHSEED="0")
    p = subprocess.run([CLI] + args, cwd=cwd, capture_output=True, timeout=300, env=env)
    return p.returncode, p.stdout.decode("utf-8", "replace"), p.stderr.decode("utf-8", "replace")


FORMAT_DOCS = None


def format_docs():
    docs = []
    for label, tree in O.rich_docs()[:3]:
        _, toks = D.render(tree)
        docs.append((label, D.render(tree, D.Style(gaps={i: " # c%d\n" % i + D.IND * t.depth for i, t in enumerate(toks) if i and t.stmt_start and i % 3 == 0}))[0]))
    docs.append(("include doc", 'MAP\n  NAME "inc" # name\n  INCLUDE "part.map"\n  LAYER\n    NAME "l"\n    TYPE POINT\n  END\nEND\n'))
    docs.append(("unicode doc", 'MAP\n  NAME "ünï \U0001F600 中"\n  WEB\n    METADATA\n      "k" "vé"\n    END\n  END\nEND\n'))
    docs.append(("single quotes doc", "LAYER\n  NAME 'it has \"dq\" inside'\n  TYPE LINE\nEND\n"))
    return docs


def format_combos():
    out = []
    for indent, spacer, quote, nl, expand, comments in itertools.product((0, 1, 2, 4, 8), (" ", "\\t"), ('"', "'"), ("\\n", "\\r\\n"), (True, False), (True, False)):
        out.append(dict(indent=indent, spacer=spacer, quote=quote, newlinechar=nl, expand=expand, comments=comments))
    return out


def run_format(res, tier, shard):
    import codecs

    import mappyfile

    docs = format_docs()
    combos = format_combos()
    cases = []
    for ci, c in enumerate(combos):
        for di, (label, text) in enumerate(docs):
            if tier == "thorough" or di == (ci % len(docs)) or (ci % 20 == 0):
                cases.append((c, label, text, "out.map"))
        if ci % 8 == 0 or tier == "thorough":
            # formatting in place (OUT is IN), and OUT being a file that IN includes
            cases.append((c, docs[ci % 3][0], docs[ci % 3][1], "in.map"))
            cases.append((c, "include doc", docs[3][1], "part.map"))
    tmp = tempfile.mkdtemp(prefix="mcf_c20f_")
    try:
        with open(os.path.join(tmp, "part.map"), "w", encoding="utf-8") as f:
            f.write('  SHAPEPATH "from include"\n')
        for k, (c, label, text, outname) in enumerate(cases):
            if k % 16 != shard:
                continue
            src = os.path.join(tmp, "in.map")
            with open(src, "w", encoding="utf-8", newline="") as f:
                f.write(text)
            with open(os.path.join(tmp, "part.map"), "w", encoding="utf-8") as f:
                f.write('  SHAPEPATH "from include"\n')
            # the expectation is computed first, on the untouched input
            import codecs as _codecs

            cwd0 = os.getcwd()
            os.chdir(tmp)
            try:
                try:
                    d0 = mappyfile.open("in.map", expand_includes=c["expand"], include_comments=c["comments"], include_position=True)
                    mappyfile.save(d0, "want.map", indent=c["indent"], spacer=_codecs.decode(c["spacer"], "unicode_escape"), quote=c["quote"],
                                   newlinechar=_codecs.decode(c["newlinechar"], "unicode_escape"))
                    with open("want.map", "rb") as f:
                        want = f.read()
                except Exception as e:
                    want = "API raises " + type(e).__name__
            finally:
                os.chdir(cwd0)
            args = ["format", "in.map", outname, "--indent=%d" % c["indent"], "--spacer=%s" % c["spacer"], "--quote=%s" % c["quote"],
                    "--newlinechar=%s" % c["newlinechar"], "--expand" if c["expand"] else "--no-expand", "--comments" if c["comments"] else "--no-comments"]
            if os.path.exists(os.path.join(tmp, "out.map")):
                os.remove(os.path.join(tmp, "out.map"))
            rc, out, err = run_cli(args, tmp)
            res["evals"] += 1
            got = None
            if os.path.exists(os.path.join(tmp, outname)):
                with open(os.path.join(tmp, outname), "rb") as f:
                    got = f.read()
            if isinstance(want, bytes) and rc == 0 and got == want:
                R.add_outcome(res, "format_equals_save_open")
                res["states"].add(R.h64(got))
            elif not isinstance(want, bytes) and rc != 0:
                R.add_outcome(res, "both_fail")
            else:
                R.add_outcome(res, "format_differs")
                R.add_violation(res, "format|%s%s|%s" % (label, "" if outname == "out.map" else " -> " + outname, " ".join(args[3:])), "mappyfile format writes something else than save(open(IN), ...): exit %d, %s" % (
                    rc, "no output file" if got is None else "bytes differ"), {"args": args, "text": text}, {"stderr": err[-300:]})
    finally:
        shutil.rmtree(tmp, ignore_errors=True)
    R.add_sub(res, "format subprocesses (160 option combinations x documents)", res["evals"])
    if shard == 0:
        R.add_sample(res, {"argv": ["mappyfile"] + args, "documents": [l for l, _ in docs]}, 1)


def invalid_map(n):
    """a Mapfile with exactly n validation messages (n LAYERs without the required TYPE)"""
    return "MAP\n  NAME \"inv\"\n" + "  LAYER\n    NAME \"l\"\n  END\n" * n + "END\n"


VALID = 'MAP\n  NAME "ok"\n  LAYER\n    NAME "l"\n    TYPE POINT\n  END\nEND\n'
UNPARSEABLE = 'MAP\n  NAME "bad"\n  LAYER\n    TYPE\n  END\nEND\n'


def run_validate(res, tier, shard):
    import mappyfile

    kinds = {"valid": VALID, "invalid": invalid_map(2), "unparseable": UNPARSEABLE, "missing": None,
             # files that fail to load in other ways than a syntax error
             "recursive": 'MAP\n  INCLUDE "recursive.map"\nEND\n', "nonutf8": b'MAP\n  NAME "caf\xe9"\nEND\n',
             "transformer_error": 'MAP\n  LAYER\n    TYPE POINT\n    FEATURE\n      POINTS\n      END\n    END\n  END\nEND\n'}
    # two items of one list value invalid in the same way: the messages (and their line/column) are identical, and still two
    kinds["twice"] = 'MAP\n  NAME "d"\n  LEGEND\n    KEYSIZE 500 500\n    KEYSPACING 500 500\n  END\nEND\n'
    base_kinds = ["invalid", "missing", "unparseable", "valid", "twice"]
    cases = []
    for r_ in (1, 2, 3):
        for combo in itertools.combinations(sorted(kinds), r_):
            for ver in ("8.2", "7.6", None):
                if all(k in base_kinds for k in combo) or ver == "8.2":
                    cases.append(("subset", combo, ver))
    counts = [0, 1, 2, 3, 254, 255, 256, 257, 258] if tier == "quick" else list(range(0, 301)) + [511, 512]
    for n in counts:
        cases.append(("count", n, "8.2"))
    cases.append(("count2", (200, 56), "8.2"))      # two files whose error counts add up to 256
    cases.append(("count2", (255, 1), "8.2"))
    tmp = tempfile.mkdtemp(prefix="mcf_c20v_")
    try:
        for k, case in enumerate(cases):
            if k % 8 != shard:
                continue
            for f in os.listdir(tmp):
                os.remove(os.path.join(tmp, f))
            files, expected_msgs, problems, all_ok = [], 0, 0, True
            if case[0] == "subset":
                ver = case[2]
                for name in case[1]:
                    fn = name + ".map"
                    files.append(fn)
                    if isinstance(kinds[name], bytes):
                        with open(os.path.join(tmp, fn), "wb") as f:
                            f.write(kinds[name])
                    elif kinds[name] is not None:
                        with open(os.path.join(tmp, fn), "w", encoding="utf-8") as f:
                            f.write(kinds[name])
            else:
                ver = case[2]
                ns = case[1] if isinstance(case[1], tuple) else (case[1],)
                for i, n in enumerate(ns):
                    fn = "inv%d.map" % i
                    files.append(fn)
                    with open(os.path.join(tmp, fn), "w", encoding="utf-8") as f:
                        f.write(invalid_map(n))
            # expectation from the API
            matched = 0
            for fn in files:
                p = os.path.join(tmp, fn)
                if not os.path.exists(p):
                    continue
                matched += 1
                try:
                    d = mappyfile.open(p, include_position=True)
                except Exception:
                    problems += 1
                    all_ok = False
                    continue
                msgs = mappyfile.validate(d, float(ver) if ver else 8.2)
                expected_msgs += len(msgs)
                problems += len(msgs)
                if msgs:
                    all_ok = False
            args = ["validate"] + files + (["--version=%s" % ver] if ver else [])
            rc, out, err = run_cli(args, tmp)
            res["evals"] += 1
            msg_lines = [ln for ln in out.splitlines() if "ERROR: Invalid value" in ln]
            why = None
            if matched and (rc == 0) != all_ok:
                why = "exit status %d although %s" % (rc, "every matched file parsed and validated" if all_ok else "%d problem(s) were found" % problems)
            elif matched and not all_ok and problems <= 255 and rc != problems:
                why = "exit status %d but %d problems" % (rc, problems)
            elif len(msg_lines) != expected_msgs:
                why = "%d message lines printed, %d validation messages expected" % (len(msg_lines), expected_msgs)
            elif matched and not any("file(s) validated" in ln for ln in out.splitlines()):
                why = "no summary line"
            elif not matched and rc != 0:
                why = "no file matched but exit status %d" % rc
            if why is None:
                R.add_outcome(res, "validate_cli_ok")
                res["states"].add(R.h64((case[0], str(case[1]), ver, rc)))
            else:
                R.add_outcome(res, "validate_cli_wrong")
                R.add_violation(res, "validate|%s|%s" % (case[0], case[1] if case[0] != "subset" else "+".join(case[1])), "mappyfile validate: " + why,
                                {"args": args, "case": [case[0], list(case[1]) if isinstance(case[1], tuple) else case[1], ver]}, {"stdout": out[-400:], "stderr": err[-300:]})
    finally:
        shutil.rmtree(tmp, ignore_errors=True)
    R.add_sub(res, "validate subprocesses (file subsets x versions, error counts)", res["evals"])
    if shard == 0:
        R.add_sample(res, {"argv": ["mappyfile", "validate", "valid.map", "invalid.map", "--version=7.6"], "error_counts": counts[:12]}, 1)


def run_schema(res):
    from mappyfile.validator import Validator

    tmp = tempfile.mkdtemp(prefix="mcf_c20s_")
    try:
        for ver in (None, 4.0, 5.0, 5.4, 6.0, 7.0, 7.6, 8.0, 8.2, 8.4):
            args = ["schema", "out.json"] + (["--version=%s" % ver] if ver is not None else [])
            rc, out, err = run_cli(args, tmp)
            res["evals"] += 1
            want = json.loads(json.dumps(Validator().get_versioned_schema(ver), sort_keys=True, indent=4))
            try:
                with open(os.path.join(tmp, "out.json"), encoding="utf-8") as f:
                    got = json.load(f)
            except Exception as e:
                got = "unreadable: %s" % e
            if rc == 0 and got == want:
                R.add_outcome(res, "schema_export_ok")
                res["states"].add(R.h64(("schema", ver)))
            else:
                R.add_violation(res, "schema|version=%s" % ver, "mappyfile schema writes something else than the API's versioned schema (exit %d)" % rc,
                                {"args": args}, {"stderr": err[-300:]})
    finally:
        shutil.rmtree(tmp, ignore_errors=True)
    R.add_sub(res, "schema subprocesses", res["evals"])


def run_unit(unit):
    res = R.new_result()
    k = unit[0]
    if k == "UNICODE":
        run_unicode(res, unit[1], unit[2])
    elif k == "FORMAT":
        run_format(res, unit[1], unit[2])
    elif k == "VALIDATE":
        run_validate(res, unit[1], unit[2])
    else:
        run_schema(res)
    return res


def describe(tier):
    return {"rule": "case = one document round trip or one CLI subprocess; state = distinct output / (case, exit status)",
            "bounds": {"code_points": 0x110000 - 0x800 - 0x20 - 1 + 2, "format_option_combinations": len(format_combos()), "format_documents": len(format_docs()),
                       "validate_error_counts": "0-3, 254-258" if tier == "quick" else "0..300, 511, 512", "validate_file_kinds": ["valid", "invalid", "unparseable", "missing", "recursive include", "not UTF-8", "transformer error"],
                       "schema_versions": [None, 4.0, 5.0, 5.4, 6.0, 7.0, 7.6, 8.0, 8.2, 8.4]}}


def replay(case):
    if "args" in case and case["args"][0] == "validate" and "case" in case:
        tmp = tempfile.mkdtemp(prefix="mcf_c20r_")
        try:
            kind, spec, ver = case["case"]
            if kind == "subset":
                for name in spec:
                    text = {"valid": VALID, "invalid": invalid_map(2), "unparseable": UNPARSEABLE, "missing": None}.get(name, UNPARSEABLE)
                    if text is not None:
                        with open(os.path.join(tmp, name + ".map"), "w", encoding="utf-8") as f:
                            f.write(text)
                expect_ok = set(spec) <= {"valid", "missing"}
            else:
                ns = spec if isinstance(spec, list) else [spec]
                for i, n in enumerate(ns):
                    with open(os.path.join(tmp, "inv%d.map" % i), "w", encoding="utf-8") as f:
                        f.write(invalid_map(n))
                expect_ok = sum(ns) == 0
            rc, out, err = run_cli(case["args"], tmp)
            return None if (rc == 0) == expect_ok else {"exit": rc, "stdout": out[-300:]}
        finally:
            shutil.rmtree(tmp, ignore_errors=True)
    return None
