"""C04 - formatting is a deterministic normal form (idempotent)."""
from __future__ import annotations

import copy
import hashlib
import os
import subprocess
import sys

from .. import runner as R
from .. import docmodel as D
from .. import optsweep as O
from .. import impl
from .c01 import strings_of

ID = "C04"
LEVEL_TEXT = ("exhaustive enumeration of (document, option set) pairs on the real code: t1 = dumps(loads(t0), o); dumps(loads(t1), o) must be "
              "byte-identical to t1 and loads(t1) == loads(dumps(loads(t1))); two fresh printers and a second process with another hash seed must "
              "produce identical text for the whole space")
ASSUMPTIONS = ["documents whose strings contain a quote character are skipped (documented limitation)"]
NSHARD = 64


def units(tier):
    return [("DOCS", tier, i) for i in range(NSHARD)] + [("HASHSEED", tier)]


def optsets(tier, label):
    if tier == "thorough" or label.startswith("RICH"):
        return O.option_sets()
    return O.corner_sets()


def one(text, o, comments=False):
    """returns (category, message, t1)"""
    d0 = impl.loads(text, include_comments=comments)
    dsame = copy.deepcopy(d0)
    t1 = impl.dumps(dsame, **o)
    if not o["separate_complex_types"]:
        # the same dictionary object and options, printed again: the same text
        t1b = impl.dumps(dsame, **o)
        if t1b != t1:
            return "nondeterministic", "printing the same dictionary object a second time gives different text: %r -> %r" % first_diff(t1, t1b), t1
    d1 = impl.loads(t1, include_comments=comments)
    snap = D.typed(D.strip_hidden(d1))
    t2 = impl.dumps(copy.deepcopy(d1), **o)
    if t2 != t1:
        return "not_idempotent", "second formatting pass changes the text: %r -> %r" % (first_diff(t1, t2)), t1
    d2 = impl.loads(t2, include_comments=comments)
    if D.typed(D.strip_hidden(d2)) != snap:
        return "dict_changes", D.strict_diff(D.strip_hidden(d1), D.strip_hidden(d2)) or "dictionaries differ", t1
    # same dictionary and options -> same text, from a brand-new printer object
    from mappyfile.pprint import PrettyPrinter

    t3 = PrettyPrinter(**o).pprint(copy.deepcopy(d0))
    if t3 != t1:
        return "nondeterministic", "a fresh PrettyPrinter gives different text", t1
    return None, None, t1


def first_diff(a, b):
    i = 0
    while i < min(len(a), len(b)) and a[i] == b[i]:
        i += 1
    return a[max(0, i - 30): i + 30], b[max(0, i - 30): i + 30]


def run_docs(res, tier, shard, digest=None):
    docs = O.documents(tier)
    for label, text in docs[shard::NSHARD]:
        if label.startswith("RICHC"):
            continue      # kept comments are outside C04: its loads is the plain one (END comments would be re-read as comments)
        d = O.load_or_none(text, label)
        if d is None:
            R.add_outcome(res, "unparsed")
            continue
        strs = list(strings_of(d))
        if any('"' in s or "'" in s for s in strs) and not label.startswith("EXPR"):
            R.add_outcome(res, "excluded_quote")
            continue
        for o in optsets(tier, label):
            res["evals"] += 1
            try:
                cat, msg, t1 = one(text, o, label.startswith("RICHC"))
            except Exception as e:
                cat, msg, t1 = "exc:" + impl.exc_name(e), str(e)[:200], ""
            if cat is None:
                R.add_outcome(res, "idempotent")
                res["states"].add(R.h64(t1))
            else:
                R.add_outcome(res, cat)
                R.add_violation(res, "%s|%s|%s" % (cat, O.oname(o), label), msg, {"text": text, "options": o, "comments": label.startswith("RICHC")},
                                {"message": msg})
    R.add_sub(res, "documents x option sets", res["evals"])
    if shard == 0 and docs:
        R.add_sample(res, {"document": docs[0][0], "options": O.corner_sets()[5]}, 1)


def space_digest(tier, reverse=False):
    """per-document digest of every formatted text of a fixed sub-space (rich + S4 + NUM documents x corner sets);
    reverse=True visits the documents in the opposite order (the text must not depend on what was printed before)"""
    out = {}
    docs = [(l, t) for l, t in O.documents("quick") if l.startswith(("RICH ", "S4", "NUM", "EXPR"))]
    if reverse:
        docs = docs[::-1]
    for label, text in docs:
        d = O.load_or_none(text)
        if d is None:
            continue
        h = hashlib.sha256()
        for o in O.corner_sets():
            try:
                t = impl.dumps(copy.deepcopy(d), **o)
            except Exception as e:
                t = "EXC " + type(e).__name__
            h.update(t.encode("utf-8", "surrogatepass"))
            h.update(b"\0")
        out[label] = h.hexdigest()
    return out


def run_unit(unit):
    res = R.new_result()
    if unit[0] == "DOCS":
        run_docs(res, unit[1], unit[2])
        return res
    # other processes: different hash seeds, and the documents visited in the opposite order
    import json

    mine = space_digest(unit[1])
    n = len(mine) * len(O.corner_sets())
    for seed, rev in (("1", False), ("987654", True), ("0", True)):
        env = dict(os.environ, PYTHONHASHSEED=seed)
        p = subprocess.run([sys.executable, "-c", "import json; from mcf.props import c04; print(json.dumps(c04.space_digest('quick', %s)))" % rev],
                           cwd=R.VERIF, env=env, capture_output=True, text=True, timeout=900)
        try:
            other = json.loads(p.stdout.strip().splitlines()[-1])
        except Exception:
            other = {"ERR": p.stderr[-200:]}
        res["evals"] += n
        bad = sorted(k for k in set(mine) | set(other) if mine.get(k) != other.get(k))
        if bad:
            R.add_violation(res, "process|hashseed=%s reverse=%s|%s" % (seed, rev, bad[0]),
                            "the same dictionary and options give different text in another process (PYTHONHASHSEED=%s, documents visited in %s order): %s" % (
                                seed, "reverse" if rev else "the same", bad[:4]), {"hashseed": seed, "reverse": rev}, None)
        else:
            R.add_outcome(res, "same_text_in_other_process")
    res["states"].add(R.h64(json.dumps(mine, sort_keys=True)))
    R.add_sub(res, "cross-process determinism (hash seeds 0/1/987654, forward and reverse document order)", n * 4)
    return res


def describe(tier):
    return {"rule": "case = (document, option set), run as format -> parse -> format -> parse; state = distinct formatted text",
            "bounds": {"documents": len(O.documents(tier)), "option_sets": "720 on rich documents, 120 corner sets elsewhere" if tier == "quick" else "720 everywhere",
                       "hash_seeds": [0, 1, 987654], "document_orders": ["forward", "reverse"]}}


def replay(case):
    if "hashseed" in case:
        return None
    cat, msg, _ = one(case["text"], case["options"], case.get("comments", False))
    return {"category": cat, "message": msg} if cat else None
