"""Formatter option sets (C04, C06, C16) and the documents they are applied to."""
from __future__ import annotations

import itertools

from . import vocab as V
from . import docmodel as D
from . import spaces as S
from . import corpus
from . import impl


def option_sets():
    out = []
    for indent, spacer, quote, ec, al, sc in itertools.product(range(9), (" ", "\t"), ('"', "'"), (False, True), (False, True), (False, True)):
        for nl in ("\n", "\r\n", " "):
            if nl == " " and ec:
                continue     # a '#' END comment would swallow the rest of a one-line file
            out.append(dict(indent=indent, spacer=spacer, quote=quote, newlinechar=nl, end_comment=ec, align_values=al,
                            separate_complex_types=sc))
    return out


def corner_sets():
    out = []
    for o in option_sets():
        if o["indent"] in (0, 1, 4) and not (o["indent"] == 1 and o["spacer"] == " ") and not (o["indent"] == 4 and o["spacer"] == "\t"):
            if o["align_values"] == o["separate_complex_types"] or o["indent"] == 0:
                out.append(o)
    return out


def oname(o):
    return "indent=%d spacer=%r quote=%s nl=%r ec=%d al=%d sc=%d" % (o["indent"], o["spacer"], o["quote"], o["newlinechar"],
                                                                    o["end_comment"], o["align_values"], o["separate_complex_types"])


def shape_docs():
    """one S1 document per distinct (type, slot kind, alternative kind)"""
    seen = set()
    out = []
    for t in V.object_types():
        for label, tree in S.s1(t):
            key = (t, label.split("/")[-1] if "/" in label else label.split("#")[0].split(".")[-1])
            if key in seen:
                continue
            seen.add(key)
            out.append((label, tree))
    return out


def rich_docs():
    """a few documents with every structural kind in one object and long / short keywords, nested"""
    from .docmodel import Block, kw, child, children, kvblock, config, projection, points, pattern, repeated

    def r(t, k, i=0, alt=0):
        s = V.slot(t, k)
        return kw(k, V.reps_for(s, s.alts[alt])[i])

    style = Block("style", [r("style", "color"), pattern([(1, 2), (3, 4)]), r("style", "width"), r("style", "symbol")])
    label = Block("label", [r("label", "size"), r("label", "backgroundshadowcolor"), children("styles", style), r("label", "font", 0, 1)])
    cls = Block("class", [r("class", "name"), children("styles", style), children("labels", label), r("class", "expression", 0, 1),
                          kvblock("metadata", [("a", "b", True, True)])])
    feature = Block("feature", [points([(1, 2), (3, 4)]), points([(5, 6)]), r("feature", "text")])
    layer = Block("layer", [r("layer", "name"), r("layer", "type", 4), repeated("processing", "BANDS=1"), children("classes", cls),
                            projection(["init=epsg:4326"]), kvblock("metadata", [("wms_title", "x", True, True), ("b", "c d", True, True)]),
                            r("layer", "labelmaxscaledenom"), repeated("processing", "X=Y"), children("features", feature),
                            kvblock("validation", [("k", "^v$", True, True)]), r("layer", "data")])
    web = Block("web", [r("web", "imagepath"), kvblock("metadata", [("k", "v", True, True)]), r("web", "template")])
    m = Block("map", [r("map", "name"), config("MS_ERRORFILE", "stderr"), child("web", web), r("map", "extent"), children("layers", layer),
                      projection("AUTO"), r("map", "size"), children("layers", S.min_block("layer", 2)), r("map", "units", 2),
                      child("legend", Block("legend", [r("legend", "status"), children("labels", S.min_block("label", 1))])),
                      r("map", "imagetype")])
    return [("RICH map", m), ("RICH layer", layer), ("RICH class", cls), ("RICH roots", [layer, cls, style]),
            ("RICH metadata root", Block("map", [kvblock("metadata", [("a", "b", True, True)])]))]


def corpus_subset(n):
    files = corpus.files()
    step = max(1, len(files) // n)
    return files[::step][:n]


def documents(tier):
    """list of (label, text) ; the text is what is first loaded"""
    out = []
    docs = list(S.s4()) + rich_docs() + shape_docs() + list(S.root_lists())
    if tier == "thorough":
        for t in V.object_types():
            docs += list(S.s1(t))
    for label, tree in docs:
        out.append((label, D.render(tree)[0]))
    for i, e in enumerate(['("[name]" = "Lake (north")', '("[name]" = "a)b" AND [x] > 1)', "([a] = ')' OR [b] = '(')", '(("a)" + [a]) * ([b] + 2))',
                           "([name] = 'O\\'Neil')", '("[a]" = "say \\"hi" OR [b] = 1)', "([a] ~ /o'neil/)", "(([a] + 'it\\'s') = \"x\")",
                           '([a] IN "1,2" AND NOT ([b] ~ "^(x|y)$"))', '(tostring([area],"%.2f (ha)"))', '{a (1),b}', '/^(a|b)\\)$/']):
        out.append(("EXPR %d" % i, "LAYER\n  TYPE POINT\n  CLASS\n    EXPRESSION %s\n    TEXT %s\n  END\nEND" % (e, e if e.startswith("(") else '"t"')))
    # escaped quotes (of the wrapping kind and of the other kind) in plain strings, written with either quote in the source
    n_expr = 12
    for v in ("it\\'s", 'a \\"b\\" c', "x\\\\y"):
        for q in ('"', "'"):
            out.append(("EXPR esc %d" % n_expr, "LAYER\n  NAME %s%s%s\n  TYPE POINT\n  METADATA\n    %sk %s%s %s%s%s\n  END\n  PROCESSING %s%s%s\n  CLASS\n    TEXT %s%s%s\n  END\nEND" % (
                q, v, q, q, v, q, q, v, q, q, v, q, q, v, q)))
            n_expr += 1
    # keywords that are also block names, holding simple values and being the longest keyword of their object
    for i, t in enumerate(['STYLE\n  SYMBOL 2\n  SIZE 3\n  COLOR 1 2 3\nEND', 'QUERYMAP\n  STYLE HILITE\n  SIZE 1 2\nEND', 'SCALEBAR\n  STYLE 1\n  SIZE 20 3\nEND',
                           'CLASS\n  SYMBOL 5\n  NAME "c"\n  SIZE 3\nEND', 'MAP\n  SYMBOLSET "s.txt"\n  NAME "n"\n  ANGLE 0\nEND', 'STYLE\n  SYMBOL [sym]\n  GAP 2\nEND',
                           'LAYER\n  TYPE POINT\n  CLASS\n    STYLE\n      SYMBOL "x"\n      SIZE 1\n    END\n  END\nEND']):
        out.append(("AMBIG %d" % i, t))
    # string values spanning several lines (LF, CRLF and CR inside the value), in keyword, METADATA and PROCESSING position
    out.append(("MULTI lf", 'LAYER\n  TYPE POINT\n  DATA "select *\n  from t\n\n  where x"\n  METADATA\n    "k" "v1\nv2"\n  END\n  PROCESSING "A=1\nB=2"\nEND'))
    out.append(("MULTI crlf", 'LAYER\n  TYPE POINT\n  DATA "select *\r\n  from t"\n  NAME "a\rb"\nEND'))
    out.append(("MULTI odd", 'MAP\n  NAME "ff\x0cvt\x0bnel\x85ls\u2028ps\u2029fs\x1cend"\n  WEB\n    TEMPLATE "t\tab"\n  END\nEND'))
    # equal numbers of different type in one text, in both orders (the same dictionary must always give the same text, whatever was printed before)
    out.append(("NUM float-then-int", "STYLE\n  WIDTH 2.0\n  SIZE 25000.0\nEND\nSTYLE\n  WIDTH 2\n  SIZE 25000\nEND"))
    out.append(("NUM int-then-float", "STYLE\n  WIDTH 2\n  SIZE 25000\nEND\nSTYLE\n  WIDTH 2.0\n  SIZE 25000.0\nEND"))
    out.append(("NUM bool-int", "LAYER\n  TYPE POINT\n  TRANSFORM TRUE\n  OPACITY 1\n  MAXFEATURES 1\n  TOLERANCE 1.0\nEND"))
    # documents loaded WITH their comments (labels RICHC...): stacked comment lines above openers, trailing comments
    for label, tree in rich_docs()[:3]:
        _, toks = D.render(tree)
        gaps = {}
        for i, t in enumerate(toks):
            if i and t.role == "opener" and t.stmt_start:
                ind = D.IND * t.depth
                gaps[i] = "\n" + ind + "# first line above\n" + ind + "# second line above\n" + ind + "/* third */\n" + ind
            elif i and t.stmt_start and t.role == "key" and i % 2 == 0:
                gaps[i] = " # trailing %d\n" % i + D.IND * t.depth
        out.append(("RICHC " + label, "# head 1\n# head 2\n" + D.render(tree, D.Style(gaps=gaps))[0]))
    for name in ("METADATA", "VALIDATION", "CONNECTIONOPTIONS"):
        out.append(("RICH root %s" % name, '%s\n  "a" "b"\n  "c" "d e"\nEND' % name))
    for f in (corpus.files() if tier == "thorough" else corpus_subset(40)):
        text = corpus.read(f)
        if text is not None:
            out.append(("S6 " + f.replace("/repo/", ""), text))
    return out


def load_or_none(text, label=""):
    try:
        return impl.loads(text, include_comments=label.startswith("RICHC"))
    except Exception:
        return None
