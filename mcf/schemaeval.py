"""Independent reading of mappyfile/schemas/*.json: raw JSON, own $ref resolution, a Draft-4-subset
evaluator and an independent minVersion/maxVersion pruner.  Nothing from mappyfile.validator or jsonref
is used here.

errors(instance, schema) yields (path_tuple, keyword) for every failing keyword, located the way the
Draft-4 specification applies keywords: allOf/$ref/items/properties descend, anyOf/oneOf/not fail at the
instance they are applied to, `required` yields one error per missing member, additionalProperties one
per object.
"""
from __future__ import annotations

import copy
import json
import os
import re

from .runner import REPO

SCHEMA_DIR = os.path.join(REPO, "mappyfile", "schemas")

IMPLEMENTED = {
    "type", "enum", "minimum", "maximum", "exclusiveMinimum", "exclusiveMaximum", "minLength", "maxLength",
    "pattern", "items", "minItems", "maxItems", "properties", "patternProperties", "additionalProperties",
    "required", "allOf", "anyOf", "oneOf", "$ref",
}
ANNOTATIONS = {"default", "description", "metadata", "example", "$schema", "title", "id"}

_raw = {}


def schema_names():
    return sorted(f[:-5] for f in os.listdir(SCHEMA_DIR) if f.endswith(".json"))


def raw(name):
    if name.endswith(".json"):
        name = name[:-5]
    if name not in _raw:
        with open(os.path.join(SCHEMA_DIR, name + ".json"), encoding="utf-8") as f:
            _raw[name] = json.load(f)
    return _raw[name]


def reset_cache():
    _raw.clear()
    _resolved.clear()


def unknown_keywords():
    """schema keywords present in the files that this evaluator does not implement"""
    found = set()

    def walk(s):
        if isinstance(s, dict):
            for k, v in s.items():
                if k not in IMPLEMENTED and k not in ANNOTATIONS:
                    found.add(k)
                if k in ("properties", "patternProperties"):
                    for sub in v.values():
                        walk(sub)
                elif k in ("allOf", "anyOf", "oneOf"):
                    for sub in v:
                        walk(sub)
                elif k == "items":
                    if isinstance(v, list):
                        for sub in v:
                            walk(sub)
                    else:
                        walk(v)
                elif k == "additionalProperties" and isinstance(v, dict):
                    walk(v)

    for n in schema_names():
        walk(raw(n))
    return found


_resolved = {}


def resolve(name, version=None):
    """fully dereferenced copy of schema `name` (Draft 4: siblings of $ref are ignored, except a version annotation, see _deref);
    with a version, pruned by prune() *after* dereferencing"""
    key = (name, version)
    if key not in _resolved:
        s = _deref(copy.deepcopy(raw(name)), ())
        if version is not None:
            s = prune(s, version)
        _resolved[key] = s
    return _resolved[key]


def _deref(s, stack):
    if isinstance(s, dict):
        if "$ref" in s:
            ref = s["$ref"]
            if ref in stack:
                raise ValueError("cyclic $ref " + ref)
            out = _deref(copy.deepcopy(raw(ref)), stack + (ref,))
            if isinstance(s.get("metadata"), dict) and isinstance(out, dict):
                # Draft 4 ignores the siblings of $ref for VALIDATION; a minVersion/maxVersion annotation written next to a $ref is
                # still an annotation of that keyword / alternative in the sense of C09 and is carried over
                out = dict(out)
                out["metadata"] = dict(out.get("metadata") or {}, **s["metadata"])
            return out
        return {k: _deref(v, stack) for k, v in s.items()}
    if isinstance(s, list):
        return [_deref(v, stack) for v in s]
    return s


def version_ok(s, version):
    md = s.get("metadata") if isinstance(s, dict) else None
    if isinstance(md, dict):
        lo = md.get("minVersion")
        hi = md.get("maxVersion")
        if lo is not None and version < lo:
            return False
        if hi is not None and version > hi:
            return False
    return True


def prune(s, version):
    """independent pruner on a dereferenced schema: removes every annotated property and every annotated
    alternative that is out of range, at any depth (through objects AND lists)"""
    if isinstance(s, dict):
        out = {}
        for k, v in s.items():
            if k == "properties" and isinstance(v, dict):
                out[k] = {pk: prune(pv, version) for pk, pv in v.items() if version_ok(pv, version)}
            elif k in ("oneOf", "anyOf", "allOf") and isinstance(v, list):
                out[k] = [prune(x, version) for x in v if version_ok(x, version)]
            elif k == "items":
                if isinstance(v, list):
                    out[k] = [prune(x, version) for x in v]
                else:
                    out[k] = prune(v, version)
            elif k in ("patternProperties",) and isinstance(v, dict):
                out[k] = {pk: prune(pv, version) for pk, pv in v.items()}
            elif k == "additionalProperties" and isinstance(v, dict):
                out[k] = prune(v, version)
            else:
                out[k] = v
        return out
    return s


# ------------------------------------------------------------------ evaluator
def _is_type(x, t):
    if t == "object":
        return isinstance(x, dict)
    if t == "array":
        return isinstance(x, list)
    if t == "string":
        return isinstance(x, str)
    if t == "boolean":
        return isinstance(x, bool)
    if t == "null":
        return x is None
    if t == "integer":
        # Draft 4 'integer': JSON integers (jsonschema's Draft4 type checker also rejects bool and 1.0)
        return isinstance(x, int) and not isinstance(x, bool)
    if t == "number":
        return isinstance(x, (int, float)) and not isinstance(x, bool)
    raise ValueError("unknown type " + repr(t))


def _json_eq(a, b):
    """JSON equality as Draft 4 'enum' needs it: booleans are not numbers, 1 == 1.0"""
    if isinstance(a, bool) or isinstance(b, bool):
        return isinstance(a, bool) and isinstance(b, bool) and a == b
    if isinstance(a, (int, float)) and isinstance(b, (int, float)):
        return a == b
    if type(a) is not type(b):
        if isinstance(a, (list, tuple)) and isinstance(b, (list, tuple)):
            pass
        else:
            return False
    if isinstance(a, dict):
        return a.keys() == b.keys() and all(_json_eq(a[k], b[k]) for k in a)
    if isinstance(a, (list, tuple)):
        return len(a) == len(b) and all(_json_eq(x, y) for x, y in zip(a, b))
    return a == b


def errors(x, s, path=()):
    if not isinstance(s, dict):
        return
    if "$ref" in s:
        yield from errors(x, raw(s["$ref"]), path)
        return
    if "type" in s:
        ts = s["type"] if isinstance(s["type"], list) else [s["type"]]
        if not any(_is_type(x, t) for t in ts):
            yield (path, "type")
    if "enum" in s:
        if not any(_json_eq(x, e) for e in s["enum"]):
            yield (path, "enum")
    if isinstance(x, (int, float)) and not isinstance(x, bool):
        if "minimum" in s:
            m = s["minimum"]
            if s.get("exclusiveMinimum") is True:
                if not x > m:
                    yield (path, "minimum")
            elif not x >= m:
                yield (path, "minimum")
        if "maximum" in s:
            m = s["maximum"]
            if s.get("exclusiveMaximum") is True:
                if not x < m:
                    yield (path, "maximum")
            elif not x <= m:
                yield (path, "maximum")
        # a numeric exclusiveMinimum without 'minimum' has no Draft-4 meaning: ignored
    if isinstance(x, str):
        if "minLength" in s and len(x) < s["minLength"]:
            yield (path, "minLength")
        if "maxLength" in s and len(x) > s["maxLength"]:
            yield (path, "maxLength")
        if "pattern" in s and not re.search(s["pattern"], x):
            yield (path, "pattern")
    if isinstance(x, list):
        if "minItems" in s and len(x) < s["minItems"]:
            yield (path, "minItems")
        if "maxItems" in s and len(x) > s["maxItems"]:
            yield (path, "maxItems")
        if "items" in s:
            it = s["items"]
            if isinstance(it, list):
                for i, (v, sub) in enumerate(zip(x, it)):
                    yield from errors(v, sub, path + (i,))
            else:
                for i, v in enumerate(x):
                    yield from errors(v, it, path + (i,))
    if isinstance(x, dict):
        props = s.get("properties", {})
        pats = s.get("patternProperties", {})
        for k, sub in props.items():
            if k in x:
                yield from errors(x[k], sub, path + (k,))
        for pat, sub in pats.items():
            for k in x:
                if re.search(pat, k):
                    yield from errors(x[k], sub, path + (k,))
        if "additionalProperties" in s:
            ap = s["additionalProperties"]
            extras = [k for k in x if k not in props and not any(re.search(p, k) for p in pats)]
            if ap is False:
                if extras:
                    yield (path, "additionalProperties")
            elif isinstance(ap, dict):
                for k in extras:
                    yield from errors(x[k], ap, path + (k,))
        if "required" in s and isinstance(s["required"], list):
            for k in s["required"]:
                if k not in x:
                    yield (path, "required")
    if "allOf" in s:
        for sub in s["allOf"]:
            yield from errors(x, sub, path)
    if "anyOf" in s:
        if not any(not list(errors(x, sub, path)) for sub in s["anyOf"]):
            yield (path, "anyOf")
    if "oneOf" in s:
        n = sum(1 for sub in s["oneOf"] if not list(errors(x, sub, path)))
        if n != 1:
            yield (path, "oneOf")


def valid(x, s):
    for _ in errors(x, s):
        return False
    return True


def lib_errors(x, resolved_schema):
    """second oracle: the jsonschema library driven directly on my dereferenced schema"""
    import jsonschema

    v = jsonschema.Draft4Validator(resolved_schema)
    return sorted((tuple(e.absolute_path), e.validator) for e in v.iter_errors(x))


def lower_json(x):
    """the 'lower-cased JSON form' of a mappyfile dictionary (own implementation)"""
    if isinstance(x, dict):
        return {str(k).lower(): lower_json(v) for k, v in x.items()}
    if isinstance(x, (list, tuple)):
        return [lower_json(v) for v in x]
    if isinstance(x, str):
        return x.lower()
    return x
