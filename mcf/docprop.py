"""Shared pieces for properties that enumerate documents: deterministic minimisation inside the
document domain and signatures for known-finding matching."""
from __future__ import annotations

from . import vocab as V
from . import docmodel as D


def sub_blocks(block, path=()):
    yield path, block
    for i, it in enumerate(block.items):
        if it[0] in ("child", "children", "inline"):
            yield from sub_blocks(it[2], path + (i,))


def get_block(root, path):
    b = root
    for i in path:
        b = b.items[i][2]
    return b


def clone(block):
    if isinstance(block, list):
        return [clone(b) for b in block]
    items = []
    for it in block.items:
        if it[0] in ("child", "children", "inline"):
            items.append((it[0], it[1], clone(it[2])))
        elif it[0] == "kv":
            items.append((it[0], it[1], list(it[2])))
        elif it[0] in ("points", "pattern"):
            items.append((it[0], list(it[1])))
        else:
            items.append(it)
    return D.Block(block.type, items)


def candidates(root):
    """smaller / simpler variants of a tree, most aggressive first"""
    if isinstance(root, list):
        if len(root) > 1:
            for i in range(len(root)):
                yield root[:i] + root[i + 1:] if len(root) > 2 else root[1 - i]
        for i, b in enumerate(root):
            for c in candidates(b):
                yield root[:i] + [c] + root[i + 1:]
        return
    # hoist a descendant block to the root
    for path, b in sub_blocks(root):
        if path:
            yield clone(b)
    for path, b in list(sub_blocks(root)):
        for i in range(len(b.items)):
            c = clone(root)
            tb = get_block(c, path)
            del tb.items[i]
            yield c
    for path, b in list(sub_blocks(root)):
        for i, it in enumerate(b.items):
            if it[0] == "kv" and it[2]:
                for j in range(len(it[2])):
                    c = clone(root)
                    tb = get_block(c, path)
                    pairs = list(it[2])
                    del pairs[j]
                    tb.items[i] = ("kv", it[1], pairs)
                    yield c
            if it[0] in ("points", "pattern") and len(it[1]) > 1:
                c = clone(root)
                get_block(c, path).items[i] = (it[0], list(it[1])[:1])
                yield c
            if it[0] == "projection" and it[1] != "AUTO" and len(it[1]) > 1:
                c = clone(root)
                get_block(c, path).items[i] = ("projection", list(it[1])[:1])
                yield c
            if it[0] == "kw":
                s = V.slot(b.type, it[1])
                if s is None:
                    continue
                cur = it[2].toks
                for a in s.alts:
                    done = False
                    for r in V.reps_for(s, a):
                        if r.toks == cur:
                            done = True
                            break
                        c = clone(root)
                        get_block(c, path).items[i] = D.kw(it[1], r)
                        yield c
                    if done:
                        break


def minimise(tree, pred, budget=300):
    """greedy fixpoint: smallest tree (in this candidate order) for which pred still holds"""
    cur = tree
    n = 0
    changed = True
    while changed and n < budget:
        changed = False
        for c in candidates(cur):
            n += 1
            if n >= budget:
                break
            try:
                ok = pred(c)
            except Exception:
                ok = False
            if ok:
                cur = c
                changed = True
                break
    return cur


def oneline(tree):
    text, _ = D.render(tree, D.Style(oneline=True))
    return text


def diff_kind(msg):
    """coarse class of a strict_diff message"""
    if msg is None:
        return None
    body = msg.split(": ", 1)[1] if ": " in msg else msg
    for k in ("keys", "key order", "__type__", "list", "expected an object", "expected a list", "expected"):
        if body.startswith(k):
            return k
    return "diff"
