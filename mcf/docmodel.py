"""Intended-structure trees, an independent renderer (tree -> Mapfile text with exact token positions)
and an independent statement of the documented text->dict contract (tree -> expected dictionary).

Nothing here imports mappyfile.
"""
from __future__ import annotations

import collections

from . import vocab as V

IND = "  "


class Block:
    __slots__ = ("type", "items")

    def __init__(self, type_, items=None):
        self.type = type_
        self.items = list(items or [])

    def __repr__(self):
        return "Block(%s,%r)" % (self.type, self.items)


# item constructors -----------------------------------------------------------
def kw(key, rep):
    return ("kw", key, rep)


def child(key, block):
    return ("child", key, block)


def children(plural, block):
    return ("children", plural, block)


def inline(key, block):
    return ("inline", key, block)


def kvblock(name, pairs):
    """pairs: list of (key, value, key_quoted, value_quoted)"""
    return ("kv", name, list(pairs))


def config(k, v):
    return ("config", k, v)


def projection(strings):
    return ("projection", strings)


def points(pairs):
    return ("points", list(pairs))


def pattern(pairs):
    return ("pattern", list(pairs))


def repeated(key, s):
    return ("repeated", key, s)


# ------------------------------------------------------------------ tokens
class Tok:
    __slots__ = ("text", "role", "kind", "ref", "depth", "stmt_start", "line", "col", "raw", "text_written")

    def __init__(self, text, role, kind, ref=None, depth=0, stmt_start=False, raw=None):
        self.text = text          # text as it will be written (after quoting / casing)
        self.role = role          # opener end key value kvkey kvval
        self.kind = kind          # kwd word str num raw hex
        self.ref = ref            # path identifying the node this token belongs to
        self.depth = depth
        self.stmt_start = stmt_start
        self.raw = raw            # unquoted string content for str/hex
        self.line = self.col = None


def num_text(v):
    return repr(v) if isinstance(v, float) else str(v)


def tokens_of(block, path=(), depth=0, out=None):
    """flatten a tree into tokens; ref paths: tuple of item indexes; () is the root block"""
    if out is None:
        out = []
    out.append(Tok(block.type.upper(), "opener", "kwd", path, depth, True))
    for i, it in enumerate(block.items):
        p = path + (i,)
        k = it[0]
        if k == "kw":
            out.append(Tok(it[1].upper(), "key", "kwd", p, depth + 1, True))
            for tk, tx in it[2].toks:
                out.append(Tok(tx, "value", tk, p, depth + 1, raw=tx))
        elif k in ("child", "children", "inline"):
            tokens_of(it[2], p, depth + 1, out)
        elif k == "kv":
            out.append(Tok(it[1].upper(), "opener", "kwd", p, depth + 1, True))
            for j, (a, b, qa, qb) in enumerate(it[2]):
                out.append(Tok(a, "kvkey", "str" if qa else "word", p + (j,), depth + 2, True, raw=a))
                out.append(Tok(b, "kvval", "str" if qb else "word", p + (j,), depth + 2, raw=b))
            out.append(Tok("END", "end", "kwd", p, depth + 1, True))
        elif k == "config":
            out.append(Tok("CONFIG", "key", "kwd", p, depth + 1, True))
            out.append(Tok(it[1], "value", "str", p, depth + 1, raw=it[1]))
            out.append(Tok(it[2], "value", "str", p, depth + 1, raw=it[2]))
        elif k == "projection":
            out.append(Tok("PROJECTION", "opener", "kwd", p, depth + 1, True))
            if it[1] == "AUTO":
                out.append(Tok("AUTO", "value", "word", p, depth + 2, True))
            else:
                for s in it[1]:
                    out.append(Tok(s, "value", "str", p, depth + 2, True, raw=s))
            out.append(Tok("END", "end", "kwd", p, depth + 1, True))
        elif k in ("points", "pattern"):
            out.append(Tok(k.upper(), "opener", "kwd", p, depth + 1, True))
            for (x, y) in it[1]:
                out.append(Tok(num_text(x), "value", "num", p, depth + 2, True))
                out.append(Tok(num_text(y), "value", "num", p, depth + 2))
            out.append(Tok("END", "end", "kwd", p, depth + 1, True))
        elif k == "repeated":
            out.append(Tok(it[1].upper(), "key", "kwd", p, depth + 1, True))
            out.append(Tok(it[2], "value", "str", p, depth + 1, raw=it[2]))
        else:
            raise ValueError(it)
    out.append(Tok("END", "end", "kwd", path, depth, True))
    return out


class Style:
    """a surface rendering: how keywords are cased, how strings are quoted, what separates tokens"""

    def __init__(self, kwcase="upper", quote='"', bare=False, gaps=None, tokcase=None, tokquote=None,
                 tokbare=None, oneline=False, newline="\n", indent=IND, default_gap=None):
        self.kwcase = kwcase
        self.quote = quote
        self.bare = bare
        self.gaps = gaps or {}        # token index -> separator text placed BEFORE that token
        self.tokcase = tokcase or {}  # token index -> case policy
        self.tokquote = tokquote or {}
        self.tokbare = tokbare or set()
        self.oneline = oneline
        self.newline = newline
        self.indent = indent
        self.default_gap = default_gap


def apply_case(text, policy):
    if policy == "upper":
        return text.upper()
    if policy == "lower":
        return text.lower()
    if policy == "title":
        return text[:1].upper() + text[1:].lower()
    if policy == "alt":
        return "".join(c.lower() if i % 2 == 0 else c.upper() for i, c in enumerate(text))
    raise ValueError(policy)


def is_bareable(s):
    """a string that may be left unquoted: identifier-like, not a grammar word, not number-like"""
    if not s or s.lower() in V.GRAMMAR_WORDS:
        return False
    if not all(c.isascii() and (c.isalnum() or c == "_") for c in s):
        return False
    return s[0].isalpha()


def quote_str(s, q):
    return q + s + q


def render(block_or_blocks, style=None):
    """returns (text, tokens) with 1-based line/col recorded on every token"""
    style = style or Style()
    blocks = block_or_blocks if isinstance(block_or_blocks, list) else [block_or_blocks]
    toks = []
    for bi, b in enumerate(blocks):
        tokens_of(b, (("root", bi),) if len(blocks) > 1 else (), 0, toks)
    parts = []
    line, col = 1, 1
    for i, t in enumerate(toks):
        # separator
        if i in style.gaps:
            sep = style.gaps[i]
        elif i == 0:
            sep = ""
        elif style.default_gap is not None:
            sep = style.default_gap
        elif t.stmt_start and not style.oneline:
            sep = style.newline + style.indent * t.depth
        else:
            sep = " "
        # text
        if t.kind == "kwd":
            text = apply_case(t.text, style.tokcase.get(i, style.kwcase))
        elif t.kind in ("str", "hex"):
            q = style.tokquote.get(i, style.quote)
            if t.kind == "str" and (style.bare or i in style.tokbare) and is_bareable(t.raw):
                text = t.raw
            else:
                text = quote_str(t.raw, q)
        else:
            text = t.text
        for ch in sep:
            if ch == "\n":
                line += 1
                col = 1
            else:
                col += 1
        t.line, t.col = line, col
        t.text_written = text
        for ch in text:
            if ch == "\n":
                line += 1
                col = 1
            else:
                col += 1
        parts.append(sep)
        parts.append(text)
    return "".join(parts), toks


# ------------------------------------------------------------------ expected dictionary
HIDDEN = ("__type__",)


def expected(block_or_blocks, inline_key_plural=False):
    """the dictionary the documented contract prescribes for the tree"""
    if isinstance(block_or_blocks, list):
        if len(block_or_blocks) == 1:
            return expected(block_or_blocks[0])
        return [expected(b) for b in block_or_blocks]
    b = block_or_blocks
    d = collections.OrderedDict()
    d["__type__"] = b.type
    points_seen = 0
    for it in b.items:
        k = it[0]
        if k == "kw":
            d[it[1]] = clone(it[2].value)
        elif k == "child":
            d[it[1]] = expected(it[2])
        elif k == "inline":
            d[it[1]] = expected(it[2])
        elif k == "children":
            d.setdefault(it[1], []).append(expected(it[2]))
        elif k == "kv":
            kd = collections.OrderedDict()
            for a, v, _, _ in it[2]:
                kd[a.lower()] = v
            kd["__type__"] = it[1]
            d[it[1]] = kd
        elif k == "config":
            d.setdefault("config", collections.OrderedDict())[it[1].lower()] = it[2]
        elif k == "projection":
            d["projection"] = ["AUTO"] if it[1] == "AUTO" else list(it[1])
        elif k == "pattern":
            d["pattern"] = [[x, y] for x, y in it[1]]
        elif k == "points":
            pts = [[x, y] for x, y in it[1]]
            if points_seen == 0:
                d["points"] = pts
            elif points_seen == 1:
                d["points"] = [d["points"], pts]
            else:
                d["points"].append(pts)
            points_seen += 1
        elif k == "repeated":
            d.setdefault(it[1], []).append(it[2])
    return d


def clone(v):
    if isinstance(v, list):
        return [clone(x) for x in v]
    return v


def dup_keys(block):
    seen, dups = set(), set()
    for it in block.items:
        if it[0] == "kw":
            if it[1] in seen:
                dups.add(it[1])
            seen.add(it[1])
    return dups


# ------------------------------------------------------------------ strict comparison
def strict_diff(exp, got, path="", dup_ok=()):
    """None when equal under the contract's equality; otherwise a short description of the first difference.
    Type-strict (bool/int/float/str distinguished), order-aware for dict keys, tuple == list."""
    if isinstance(exp, dict):
        if not isinstance(got, dict):
            return "%s: expected an object, got %s" % (path or "/", short(got))
        ek = [k for k in exp.keys()]
        gk = [k for k in got.keys()]
        eks = [k for k in ek if not hidden(k)]
        gks = [k for k in gk if not hidden(k)]
        if eks != gks:
            if sorted(eks) == sorted(gks) and dup_ok:
                # a key given twice may sit at its first or at its last position
                moved = [k for k in eks if k in dup_ok]
                base_e = [k for k in eks if k not in moved]
                base_g = [k for k in gks if k not in moved]
                if base_e != base_g:
                    return "%s: key order %s != %s" % (path or "/", gks, eks)
            else:
                return "%s: keys %s != expected %s" % (path or "/", gks, eks)
        if exp.get("__type__") != got.get("__type__"):
            return "%s: __type__ %r != %r" % (path or "/", got.get("__type__"), exp.get("__type__"))
        for k in eks:
            r = strict_diff(exp[k], got[k], path + "/" + k, dup_ok)
            if r:
                return r
        return None
    if isinstance(exp, (list, tuple)):
        if not isinstance(got, (list, tuple)):
            return "%s: expected a list %s, got %s" % (path, short(exp), short(got))
        if len(exp) != len(got):
            return "%s: list %s != expected %s" % (path, short(got), short(exp))
        for i, (a, b) in enumerate(zip(exp, got)):
            r = strict_diff(a, b, "%s[%d]" % (path, i), dup_ok)
            if r:
                return r
        return None
    if isinstance(got, (dict, list, tuple)):
        return "%s: expected %s, got %s" % (path, short(exp), short(got))
    if type(exp) is not type(got) or exp != got:
        return "%s: expected %s, got %s" % (path, short(exp), short(got))
    return None


def hidden(k):
    return isinstance(k, str) and k.startswith("__") and k.endswith("__")


def short(v):
    s = "%s:%r" % (type(v).__name__, plain(v))
    return s if len(s) < 160 else s[:157] + "..."


def plain(v):
    """plain-python deep copy (dict/list/scalars) of a mappyfile dictionary, hidden keys kept"""
    if isinstance(v, dict):
        return {k: plain(x) for k, x in v.items()}
    if isinstance(v, (list, tuple)):
        return [plain(x) for x in v]
    return v


def typed(v):
    """type-strict hashable canonical form"""
    if isinstance(v, dict):
        return ("D",) + tuple((k, typed(x)) for k, x in v.items())
    if isinstance(v, (list, tuple)):
        return ("L",) + tuple(typed(x) for x in v)
    return (type(v).__name__, v)


def strip_hidden(v, keep=("__type__",)):
    if isinstance(v, dict):
        return collections.OrderedDict((k, strip_hidden(x, keep)) for k, x in v.items() if not hidden(k) or k in keep)
    if isinstance(v, (list, tuple)):
        return [strip_hidden(x, keep) for x in v]
    return v


def describe(block):
    """compact JSON-able description of a tree (for samples and replay files)"""
    if isinstance(block, list):
        return [describe(b) for b in block]
    out = []
    for it in block.items:
        if it[0] == "kw":
            out.append(["kw", it[1], [list(t) for t in it[2].toks], it[2].value])
        elif it[0] in ("child", "children", "inline"):
            out.append([it[0], it[1], describe(it[2])])
        else:
            out.append([it[0]] + [list(x) if isinstance(x, tuple) else x for x in it[1:]])
    return {"type": block.type, "items": out}


def undescribe(d):
    if isinstance(d, list):
        return [undescribe(x) for x in d]
    items = []
    for it in d["items"]:
        k = it[0]
        if k == "kw":
            items.append(kw(it[1], V.Rep([tuple(t) for t in it[2]], it[3], [])))
        elif k in ("child", "children", "inline"):
            items.append((k, it[1], undescribe(it[2])))
        elif k == "kv":
            items.append(kvblock(it[1], [tuple(p) for p in it[2]]))
        elif k in ("points", "pattern"):
            items.append((k, [tuple(p) for p in it[1]]))
        else:
            items.append(tuple(it))
    return Block(d["type"], items)
