"""Document enumerators S1..S5 over the schema vocabulary (all enumerated, none sampled)."""
from __future__ import annotations

import itertools

from . import vocab as V
from .docmodel import (Block, kw, child, children, inline, kvblock, config, projection, points, pattern, repeated)

FILLER_PREF = ["name", "group", "template", "image", "text", "labelformat", "table", "driver", "wkt", "font",
               "opacity", "gridstep", "maxdistance", "buffer", "status", "size"]


def filler_kws(otype, n=2, avoid=()):
    """n neutral simple keyword lines for a type (string-valued where possible)"""
    out = []
    for key in FILLER_PREF:
        s = V.slot(otype, key)
        if s is None or s.kind != "simple" or key in avoid:
            continue
        for a in s.alts:
            if a.kind in ("string", "integer", "number", "enum"):
                reps = V.reps_for(s, a, valid_only=True)
                if reps:
                    out.append(kw(key, reps[0]))
                    break
        if len(out) >= n:
            break
    if len(out) < n:
        for s in V.slots(otype):
            if s.kind == "simple" and s.key not in avoid and s.key not in [o[1] for o in out]:
                for a in s.alts:
                    if a.kind in ("string", "integer", "number", "enum", "boolean"):
                        reps = V.reps_for(s, a, valid_only=True)
                        if reps:
                            out.append(kw(s.key, reps[0]))
                            break
            if len(out) >= n:
                break
    return out[:n]


def min_block(otype, n=1):
    """a small valid block of the type"""
    items = list(filler_kws(otype, n))
    for r in V.required(otype):
        if r not in [i[1] for i in items]:
            s = V.slot(otype, r)
            for a in s.alts:
                reps = V.reps_for(s, a, valid_only=True)
                if reps:
                    items.append(kw(r, reps[0]))
                    break
    return Block(otype, items)


KV_VARIANTS = [
    [],
    [("wms_title", "My Title", True, True)],
    [("wms_title", "t1", True, True), ("Wms_SRS", "EPSG:4326 EPSG:3857", True, True)],
    [("key1", "val1", False, False), ("Key2", "two words", False, True)],
    [("dup", "first", True, True), ("other", "x", True, True), ("DUP", "second", True, True)],
    [("ows_enable_request", "*", True, True), ("empty", "", True, True)],
    # keys on which str.lower() and str.casefold() differ, quoted and bare (the grammar admits \xc0-\xff in bare words)
    [("Straße_Name", "x", True, True), ("GRÖSSE", "y", True, True), ("maße", "1", True, True), ("masse", "2", True, True)],
    [("größe", "10", False, False), ("ÀÉÎ_key", "v", False, True), ("µm", "micro", True, True)],
    [("'inner'", "'quoted value'", True, True), ("k", "'a' 'b'", True, True)],
]
CONFIG_VARIANTS = [
    [("MS_ERRORFILE", "stderr")],
    [("MS_ERRORFILE", "stderr"), ("PROJ_LIB", "/usr/share/proj")],
    [("ON_MISSING_DATA", "FAIL"), ("on_missing_data", "LOG")],
    [("MS_ERRORFILE", "'stderr'")],
]
PROJ_VARIANTS = [[], ["init=epsg:4326"], ["proj=utm", "zone=15"], "AUTO",
                 # strings whose content itself begins and ends with the other quote: only the OUTER quotes go
                 ["'init=epsg:4326'", "'+proj=merc' '+ellps=WGS84'"]]
PTS_VARIANTS = [[], [(1, 2)], [(1, 2), (3.5, -4)], [(0, 0), (10, 0), (10, 10)]]
REPEATED_VALUES = ["BANDS=1,2,3", "two words", "x"]


def structural_items(otype, s):
    """list of item-lists for a non-simple slot"""
    out = []
    if s.kind == "child":
        out.append([child(s.key, Block(s.child_type, []))])
        out.append([child(s.key, min_block(s.child_type, 1))])
        out.append([child(s.key, min_block(s.child_type, 2))])
    elif s.kind == "children":
        out.append([children(s.key, Block(s.child_type, []))])
        out.append([children(s.key, min_block(s.child_type, 1))])
        out.append([children(s.key, min_block(s.child_type, 1)), children(s.key, min_block(s.child_type, 2))])
        out.append([children(s.key, min_block(s.child_type, 1)), children(s.key, Block(s.child_type, [])),
                    children(s.key, min_block(s.child_type, 2))])
    elif s.kind == "kv":
        for pv in KV_VARIANTS:
            out.append([kvblock(s.key, pv)])
    elif s.kind == "config":
        for cv in CONFIG_VARIANTS:
            out.append([config(k, v) for k, v in cv])
    elif s.kind == "projection":
        for pv in PROJ_VARIANTS:
            out.append([projection(pv)])
    elif s.kind == "points":
        for pv in PTS_VARIANTS:
            out.append([points(pv)])
        if any(a.kind == "pointslist" for a in s.alts):
            out.append([points(PTS_VARIANTS[1]), points(PTS_VARIANTS[2])])
            out.append([points(PTS_VARIANTS[1]), points(PTS_VARIANTS[2]), points(PTS_VARIANTS[3])])
    elif s.kind == "pattern":
        for pv in PTS_VARIANTS:
            out.append([pattern(pv)])
    elif s.kind == "repeated":
        if s.key == "include":
            return out    # INCLUDE is handled by C15 (needs files / expand_includes=False)
        out.append([repeated(s.key, REPEATED_VALUES[0])])
        out.append([repeated(s.key, REPEATED_VALUES[0]), repeated(s.key, REPEATED_VALUES[1])])
        out.append([repeated(s.key, v) for v in REPEATED_VALUES])
        # the same value more than once (nothing written in the text may be dropped)
        out.append([repeated(s.key, v) for v in ("x", "two words", "x", "x")])
    return out


def simple_items(otype, s, all_reps=True, valid_only=False):
    """list of (alt, rep, item) for a simple slot"""
    out = []
    for a in s.alts:
        if a.kind == "object":
            b = min_block(a.child_type, 2)
            out.append((a, None, inline(s.key, b)))
            continue
        reps = V.reps_for(s, a, valid_only=valid_only)
        if not all_reps:
            reps = reps[:1]
        for r in reps:
            out.append((a, r, kw(s.key, r)))
    return out


def s1(otype, valid_only=False):
    """every slot x alternative x representative as a one-item document; yields (label, tree)"""
    for s in V.slots(otype):
        if s.kind == "simple":
            for a, r, item in simple_items(otype, s, True, valid_only):
                yield ("S1 %s.%s/%s" % (otype, s.key, a.kind), Block(otype, [item]))
        else:
            for i, items in enumerate(structural_items(otype, s)):
                yield ("S1 %s.%s#%d" % (otype, s.key, i), Block(otype, items))


def nest_path(otype):
    """shortest containment path from another root type down to otype (None if otype is never nested)"""
    best = None
    for path in V.containment_paths():
        if path[-1][2] == otype and path[0][0] != otype and (best is None or len(path) < len(best)):
            best = path
    return best


def s1_nested(otype, valid_only=False):
    """every S1 document of a type embedded at the end of its shortest containment path (LALR state depends on nesting)"""
    path = nest_path(otype)
    if path is None:
        return
    for label, tree in s1(otype, valid_only):
        blk = tree
        for parent, key, ct, how in reversed(path):
            mk = {"child": child, "children": children, "inline": inline}[how]
            blk = Block(parent, [mk(key, blk)])
        yield (label.replace("S1 ", "S1n ", 1), blk)


def neutral_before_after(otype, avoid):
    """neutral fillers: string keyword, child block, repeatable keyword"""
    f = filler_kws(otype, 2, avoid=avoid)
    fill = [[x] for x in f]
    for s in V.slots(otype):
        if s.kind in ("child", "children") and s.key not in avoid:
            mk = child if s.kind == "child" else children
            fill.append([mk(s.key, min_block(s.child_type, 1))])
            break
    for s in V.slots(otype):
        if s.kind == "repeated" and s.key != "include" and s.key not in avoid:
            fill.append([repeated(s.key, "x")])
            break
    return fill


def s2(otype, valid_only=False):
    """S1 items in position first / middle / last among neutral fillers"""
    for s in V.slots(otype):
        if s.kind == "simple":
            cands = [(a.kind, [item]) for a, r, item in simple_items(otype, s, True, valid_only)]
        else:
            cands = [("#%d" % i, items) for i, items in enumerate(structural_items(otype, s))]
        fill = neutral_before_after(otype, avoid=(s.key,))
        if not fill:
            continue
        for tag, items in cands:
            for fi, f in enumerate(fill):
                g = fill[(fi + 1) % len(fill)]
                yield ("S2 %s.%s/%s first f%d" % (otype, s.key, tag, fi), Block(otype, items + f))
                yield ("S2 %s.%s/%s last f%d" % (otype, s.key, tag, fi), Block(otype, f + items))
                if len(fill) > 1:
                    yield ("S2 %s.%s/%s middle f%d" % (otype, s.key, tag, fi), Block(otype, f + items + g))


def line_items(otype, all_reps):
    """all single keyword-line / structural items of a type (for pairs and triples)"""
    out = []
    for s in V.slots(otype):
        if s.kind == "simple":
            for a, r, item in simple_items(otype, s, all_reps):
                out.append(("%s/%s" % (s.key, a.kind), [item]))
        else:
            st = structural_items(otype, s)
            if st:
                pick = st[1] if len(st) > 1 else st[0]
                out.append(("%s#" % s.key, pick))
    return out


def s3_pairs(otype, all_reps=False, first_index=None):
    li = line_items(otype, all_reps)
    rng = range(len(li)) if first_index is None else [first_index]
    for i in rng:
        for j in range(len(li)):
            yield ("S3 %s %s+%s" % (otype, li[i][0], li[j][0]), Block(otype, li[i][1] + li[j][1]))


def s3_triples(otype, first_index):
    li = line_items(otype, False)
    i = first_index
    for j in range(len(li)):
        for k in range(len(li)):
            yield ("S3t %s %s+%s+%s" % (otype, li[i][0], li[j][0], li[k][0]), Block(otype, li[i][1] + li[j][1] + li[k][1]))


def n_line_items(otype, all_reps=False):
    return len(line_items(otype, all_reps))


def s4():
    """every containment path from every root, each block carrying a keyword before and after its child;
    plus sibling variants 0..3 of each repeatable child interleaved with other items"""
    for path in V.containment_paths():
        for variant in ("bare", "before_after"):
            yield ("S4 %s %s" % ("/".join([path[0][0]] + [e[1] for e in path]), variant), build_path(path, variant))
    g = V.containment()
    for t, edges in g.items():
        reps_edges = [e for e in edges if e[2] == "children"]
        for key, ct, how in reps_edges:
            f = filler_kws(t, 2)
            for n in range(0, 4):
                kids = [children(key, min_block(ct, 1 + (i % 2))) for i in range(n)]
                # interleave with fillers: f0 k0 f1 k1 k2
                items = []
                for i, kd in enumerate(kids):
                    if i < len(f):
                        items.append(f[i])
                    items.append(kd)
                if n == 0:
                    items = list(f)
                yield ("S4sib %s.%s n=%d" % (t, key, n), Block(t, items))
            # two different repeatable children interleaved
            for key2, ct2, how2 in reps_edges:
                if key2 != key:
                    items = [children(key, min_block(ct, 1)), children(key2, min_block(ct2, 1)),
                             children(key, min_block(ct, 2)), children(key2, min_block(ct2, 2))]
                    yield ("S4mix %s.%s+%s" % (t, key, key2), Block(t, items))


def build_path(path, variant):
    def mk(idx):
        parent, key, ct, how = path[idx]
        if idx + 1 < len(path):
            inner = mk(idx + 1)
        else:
            inner = min_block(ct, 1)
        return parent, key, how, inner

    def wrap(idx):
        parent, key, ct, how = path[idx]
        inner = wrap(idx + 1) if idx + 1 < len(path) else min_block(ct, 1)
        mkitem = {"child": child, "children": children, "inline": inline}[how]
        items = [mkitem(key, inner)]
        for r in V.required(parent):
            rs = V.slot(parent, r)
            items.insert(0, kw(r, V.reps_for(rs, rs.alts[0], valid_only=True)[0]))
        if variant == "before_after":
            f = filler_kws(parent, 2, avoid=(key,))
            if len(f) >= 2:
                items = [f[0]] + items + [f[1]]
            elif f:
                items = [f[0]] + items
        return Block(parent, items)

    return wrap(0)


# S5: value-shape stress ------------------------------------------------------
NUM_SPELLINGS = [("+1", 1), ("007", 7), ("1.0", 1.0), ("1e3", 1000.0), ("1E3", 1000.0), (".5", 0.5), ("5.", 5.0), ("-0", 0), ("-0.0", -0.0),
                 ("1.5e-3", 0.0015), ("+.25", 0.25), ("12345678901234567890", 12345678901234567890),
                 # values whose Python repr (what dumps writes) uses an exponent, with whole-number and fractional mantissa
                 ("0.00001", 1e-05), ("10000000000000000.0", 1e16), ("1e22", 1e22), ("0.00000015", 1.5e-07), ("-0.00002", -2e-05), ("2.5e+17", 2.5e17),
                 # doubles that need 16 / 17 significant digits
                 ("0.30000000000000004", 0.30000000000000004), ("-20037508.342789244", -20037508.342789244), ("559082264.0287178", 559082264.0287178),
                 ("0.1", 0.1), ("1.0000000000000002", 1.0000000000000002),
                 # small values with many significant digits (repr uses an exponent AND 14-17 digits), and very small ones
                 ("0.000012345678901", 1.2345678901e-05), ("3.3333333333333335e-05", 3.3333333333333335e-05), ("0.00000000001", 1e-11),
                 ("-4.9406564584124654e-300", -4.9406564584124654e-300), ("1.7976931348623157e308", 1.7976931348623157e308)]


def s5(otype):
    """enum words in lower/mixed case, number spellings, list arities 1..7 (those the grammar accepts are judged by C02, the rest by C11)"""
    for s in V.slots(otype):
        if s.kind != "simple":
            continue
        for a in s.alts:
            if a.kind == "enum":
                for w in a.words:
                    if isinstance(w, str) and w.lower() not in V.GRAMMAR_WORDS:
                        for spelled in (w.lower(), w[:1].upper() + w[1:].lower()):
                            yield ("S5 %s.%s enum case" % (otype, s.key), Block(otype, [kw(s.key, V.Rep([("word", spelled)], spelled, ["word"]))]))
            elif a.kind in ("number", "integer"):
                for text, val in NUM_SPELLINGS:
                    yield ("S5 %s.%s number spelling" % (otype, s.key), Block(otype, [kw(s.key, V.Rep([("num", text)], val, ["num"]))]))
            elif a.kind == "numlist":
                for n in (1, 2, 3, 4, 6):
                    vals = [1, 2.5, 3, 4, 5, 6][:n] if n in (2, 4) else [1, 2, 3, 4, 5, 6][:n]
                    value = vals[0] if n == 1 else list(vals)
                    yield ("S5 %s.%s arity %d" % (otype, s.key, n), Block(otype, [kw(s.key, V.Rep([("num", V.num_text(v)) for v in vals], value, ["num"] * n))]))
            elif a.kind == "string":
                for sv in ("UPPER", "MiXeD", "with  two  spaces", " lead", "trail ", "tab\there", "semi;colon", "back\\slash", "pct%age", "[not closed", "(paren", "{brace", "/slash",
                           # values that begin and end with a quote character of the kind not used to write them
                           "'a','b'", "'[x]' = 'y'", "'q'", "'",
                           # look-alikes of a hex colour (5 and 7 digits) and the other keyword-valued words
                           "#ABCDE", "#ABCDEF1", "#abcdefg", "Selected", "HILITE", "hilite"):
                    yield ("S5 %s.%s string" % (otype, s.key), Block(otype, [kw(s.key, V.Rep([("str", sv)], sv, ["qstr"]))]))
                if any(b.kind in ("expression", "regex", "attribute") for b in s.alts):
                    # quoted strings that begin and end like another lexical class of the same slot without being a member of it
                    for sv in ("(abc)", "(a) - (b)", "[a] and [b]", "/a/b/", "{a} or {b}"):
                        yield ("S5 %s.%s string shaped like another class" % (otype, s.key), Block(otype, [kw(s.key, V.Rep([("str", sv)], sv, ["qstr"]))]))
                break


# root lists ------------------------------------------------------------------
def root_lists():
    """lists of blocks at the root (partial Mapfiles)"""
    for t in V.object_types():
        yield ("ROOT2 %s" % t, [min_block(t, 1), min_block(t, 2)])
    yield ("ROOT3 mixed", [min_block("layer", 1), min_block("class", 1), min_block("style", 1)])


# ------------------------------------------------------------------ work units
def doc_units(names, tier, all_rep_pairs=None, triples=None):
    """work units for document spaces; names subset of S1 S2 S3 S4 ROOT"""
    us = []
    types = V.object_types()
    if all_rep_pairs is None:
        all_rep_pairs = tier == "thorough"
    if triples is None:
        triples = tier == "thorough"
    for n in names:
        if n in ("S1", "S2", "S1n"):
            us += [(n, t) for t in types]
        elif n == "S3":
            for t in types:
                k = n_line_items(t, all_rep_pairs)
                # shard big types by first item
                if k * k > 4000:
                    us += [("S3", t, all_rep_pairs, i) for i in range(k)]
                else:
                    us.append(("S3", t, all_rep_pairs, None))
            if triples:
                for t in types:
                    k = n_line_items(t, False)
                    us += [("S3t", t, i) for i in range(k)]
        elif n == "S4":
            us.append(("S4",))
        elif n == "S5":
            us += [("S5", t) for t in types]
        elif n == "ROOT":
            us.append(("ROOT",))
    return us


def iter_unit(unit, valid_only=False):
    n = unit[0]
    if n == "S1":
        return s1(unit[1], valid_only)
    if n == "S2":
        return s2(unit[1], valid_only)
    if n == "S1n":
        return s1_nested(unit[1], valid_only)
    if n == "S3":
        return s3_pairs(unit[1], unit[2], unit[3])
    if n == "S3t":
        return s3_triples(unit[1], unit[2])
    if n == "S4":
        return s4()
    if n == "S5":
        return s5(unit[1])
    if n == "ROOT":
        return root_lists()
    raise ValueError(unit)
