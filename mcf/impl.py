"""Access to the implementation under test.  loads / dumps run the PUBLIC functions mappyfile.loads / mappyfile.dumps themselves (so whatever
those wrappers do to the text, the options or the result is part of every check); only the constructors of the worker classes, under the names
mappyfile.utils looks them up by, are memoised per argument set for the duration of the call (Parser() construction costs ~150 ms,
PrettyPrinter() ~3 ms).  C12 separately establishes reuse == fresh; every property also runs a binding pass with nothing memoised."""
from __future__ import annotations

import logging

logging.disable(logging.CRITICAL)

_parsers = {}
_todict = {}
_printers = {}
_validators = {}


def reset():
    _parsers.clear()
    _todict.clear()
    _printers.clear()
    _validators.clear()


def parser(expand_includes=True, include_comments=False):
    from mappyfile.parser import Parser

    k = (expand_includes, include_comments)
    if k not in _parsers:
        _parsers[k] = Parser(expand_includes=expand_includes, include_comments=include_comments)
    return _parsers[k]


def todict(include_position=False, include_comments=False):
    from mappyfile.transformer import MapfileToDict

    k = (include_position, include_comments)
    if k not in _todict:
        _todict[k] = MapfileToDict(include_position=include_position, include_comments=include_comments)
    return _todict[k]


_INC = None


class _Memo:
    """stands in for a worker class inside mappyfile.utils for the duration of one call: one object per argument set"""

    def __init__(self, factory):
        self.factory = factory

    def __call__(self, *a, **kw):
        return self.factory(*a, **kw)


class scoped:
    """with scoped(): the names Parser / MapfileToDict / PrettyPrinter in mappyfile.utils construct memoised objects"""

    def __enter__(self):
        import mappyfile.utils as U

        self.U = U
        self.saved = {n: getattr(U, n, None) for n in ("Parser", "MapfileToDict", "PrettyPrinter", "Validator")}
        if self.saved["Parser"] is not None:
            U.Parser = _Memo(lambda expand_includes=True, include_comments=False: parser(expand_includes, include_comments))
        if self.saved["MapfileToDict"] is not None:
            U.MapfileToDict = _Memo(lambda include_position=False, include_comments=False: todict(include_position, include_comments))
        if self.saved["PrettyPrinter"] is not None:
            U.PrettyPrinter = _Memo(lambda **opts: printer(**opts))
        if self.saved["Validator"] is not None:
            U.Validator = _Memo(lambda: validator())
        return self

    def __exit__(self, *exc):
        for n, v in self.saved.items():
            if v is not None:
                setattr(self.U, n, v)
        return False


def loads(text, expand_includes=None, include_position=False, include_comments=False, fn=None):
    """expand_includes=None: the public default (True: the include pre-pass runs over the text) unless the text itself contains a
    line starting with INCLUDE - then the directives are kept as data (corpus files whose include targets may not exist)"""
    global _INC
    if expand_includes is None:
        if _INC is None:
            import re

            _INC = re.compile(r"(?im)^\s*include")
        expand_includes = not _INC.search(text)
    if fn is not None:
        ast = parser(expand_includes, include_comments).parse(text, fn)
        return todict(include_position, include_comments).transform(ast)
    import mappyfile

    with scoped():
        return mappyfile.loads(text, expand_includes=expand_includes, include_position=include_position, include_comments=include_comments)


def open_(fn, **flags):
    """the public mappyfile.open with memoised worker constructors"""
    import mappyfile

    with scoped():
        return mappyfile.open(fn, **flags)


def load_(fp, **flags):
    import mappyfile

    with scoped():
        return mappyfile.load(fp, **flags)


def printer(**opts):
    from mappyfile.pprint import PrettyPrinter

    k = tuple(sorted(opts.items()))
    if k not in _printers:
        _printers[k] = PrettyPrinter(**opts)
    return _printers[k]


def dumps(d, **opts):
    import mappyfile

    with scoped():
        return mappyfile.dumps(d, **opts)


def validator():
    from mappyfile.validator import Validator

    if "v" not in _validators:
        _validators["v"] = Validator()
    return _validators["v"]


def validate(d, schema_name="map", version=None):
    """MAP roots go through the public mappyfile.validate (which always judges against the MAP schema); other roots have no public
    entry point with a schema name and use the Validator object directly"""
    if schema_name == "map":
        import mappyfile

        with scoped():
            return mappyfile.validate(d, version)
    return validator().validate(d, schema_name=schema_name, version=version)


def exc_name(e):
    return type(e).__name__


def is_lark_error(e):
    import lark

    return isinstance(e, lark.exceptions.LarkError)
