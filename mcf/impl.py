"""Access to the implementation under test with reused worker objects (the code path the public
functions themselves use; Parser() construction costs ~150 ms, so objects are kept per option set).
C12 separately establishes reuse == fresh; every property also runs a public-API binding pass."""
from __future__ import annotations

import logging

logging.disable(logging.CRITICAL)

_parsers = {}
_todict = {}
_printers = {}
_validators = {}


def reset():
    _parsers.clear()
    _todict.clear()
    _printers.clear()
    _validators.clear()


def parser(expand_includes=True, include_comments=False):
    from mappyfile.parser import Parser

    k = (expand_includes, include_comments)
    if k not in _parsers:
        _parsers[k] = Parser(expand_includes=expand_includes, include_comments=include_comments)
    return _parsers[k]


def todict(include_position=False, include_comments=False):
    from mappyfile.transformer import MapfileToDict

    k = (include_position, include_comments)
    if k not in _todict:
        _todict[k] = MapfileToDict(include_position=include_position, include_comments=include_comments)
    return _todict[k]


_INC = None


def loads(text, expand_includes=None, include_position=False, include_comments=False, fn=None):
    """expand_includes=None: the public default (True: the include pre-pass runs over the text) unless the text itself contains a
    line starting with INCLUDE - then the directives are kept as data (corpus files whose include targets may not exist)"""
    global _INC
    if expand_includes is None:
        if _INC is None:
            import re

            _INC = re.compile(r"(?im)^\s*include")
        expand_includes = not _INC.search(text)
    ast = parser(expand_includes, include_comments).parse(text, fn)
    return todict(include_position, include_comments).transform(ast)


def printer(**opts):
    from mappyfile.pprint import PrettyPrinter

    k = tuple(sorted(opts.items()))
    if k not in _printers:
        _printers[k] = PrettyPrinter(**opts)
    return _printers[k]


def dumps(d, **opts):
    return printer(**opts).pprint(d)


def validator():
    from mappyfile.validator import Validator

    if "v" not in _validators:
        _validators["v"] = Validator()
    return _validators["v"]


def validate(d, schema_name="map", version=None):
    return validator().validate(d, schema_name=schema_name, version=version)


def exc_name(e):
    return type(e).__name__


def is_lark_error(e):
    import lark

    return isinstance(e, lark.exceptions.LarkError)
