"""Deterministic thread scheduler for the real mappyfile code (stateless, pre-emption bounded).

sys.monitoring (PEP 669) events are enabled only on the code objects of the mappyfile package; every
event is a scheduling point.  Exactly one worker thread runs at a time (baton = per-thread semaphore).
A schedule is a list of integers: at point i the choice indexes the canonical list
[running thread (if still enabled)] + other enabled threads in ascending id.  Choice 0 = keep running.
"""
from __future__ import annotations

import sys
import threading
import types

TOOL = 3
_state = None
_codes = None
_installed = None


class Divergence(Exception):
    """the enabled set / choice range differed while replaying a prefix: harness error, never a verdict"""


def mappyfile_codes():
    global _codes
    if _codes is not None:
        return _codes
    import mappyfile  # noqa: F401
    import mappyfile.cli  # noqa: F401

    seen = {}

    def add(co):
        if co in seen:
            return
        if "/mappyfile/" not in co.co_filename.replace("\\", "/"):
            return
        seen[co] = True
        for c in co.co_consts:
            if isinstance(c, types.CodeType):
                add(c)

    for name, mod in list(sys.modules.items()):
        if mod is None or not (name == "mappyfile" or name.startswith("mappyfile.")):
            continue
        for obj in list(vars(mod).values()):
            stack = [obj]
            while stack:
                o = stack.pop()
                if isinstance(o, types.FunctionType):
                    add(o.__code__)
                elif isinstance(o, (classmethod, staticmethod)):
                    stack.append(o.__func__)
                elif isinstance(o, property):
                    stack += [f for f in (o.fget, o.fset, o.fdel) if f]
                elif isinstance(o, type) and getattr(o, "__module__", "").startswith("mappyfile"):
                    stack += list(vars(o).values())
                elif hasattr(o, "__wrapped__") and isinstance(getattr(o, "__wrapped__"), types.FunctionType):
                    stack.append(o.__wrapped__)
    _codes = list(seen)
    return _codes


def install(granularity):
    """enable events on the mappyfile code objects; granularity 'line' or 'call'"""
    global _installed
    mon = sys.monitoring
    if _installed == granularity:
        return
    if _installed is None:
        if mon.get_tool(TOOL) is None:
            mon.use_tool_id(TOOL, "mcf-sched")
        mon.register_callback(TOOL, mon.events.LINE, _on_line)
        mon.register_callback(TOOL, mon.events.PY_START, _on_start)
        mon.register_callback(TOOL, mon.events.PY_RETURN, _on_return)
    ev = mon.events.LINE if granularity == "line" else (mon.events.PY_START | mon.events.PY_RETURN)
    for co in mappyfile_codes():
        mon.set_local_events(TOOL, co, ev)
    _installed = granularity


def uninstall():
    global _installed
    if _installed is None:
        return
    mon = sys.monitoring
    for co in mappyfile_codes():
        mon.set_local_events(TOOL, co, 0)
    _installed = "off"


def _on_line(code, line):
    st = _state
    if st is not None:
        st.point(("L", code.co_name, line))


def _on_start(code, offset):
    st = _state
    if st is not None:
        st.point(("S", code.co_name))


def _on_return(code, offset, retval):
    st = _state
    if st is not None:
        st.point(("R", code.co_name))


class Execution:
    def __init__(self, bodies, choices, horizon=200000, max_per_label=None):
        self.max_per_label = max_per_label
        self.label_counts = {}
        self.bodies = bodies
        self.n = len(bodies)
        self.choices = list(choices)
        self.horizon = horizon
        self.sems = [threading.Semaphore(0) for _ in bodies]
        self.finished = [False] * self.n
        self.results = [None] * self.n
        self.trace = []          # (thread, number of options, choice taken, preempting?, label)
        self.ids = {}
        self.running = None
        self.error = None
        self.done = threading.Event()
        self.capped = False

    # -- scheduling
    def decide(self, t, options, label, running_enabled):
        idx = len(self.trace)
        if idx < len(self.choices):
            c = self.choices[idx]
            if c >= len(options):
                self.error = Divergence("point %d: choice %d but only %d options (%s)" % (idx, c, len(options), label))
                c = 0
        else:
            c = 0
        self.trace.append((t, len(options), c, running_enabled and c != 0, label))
        return options[c]

    def point(self, label):
        t = self.ids.get(threading.get_ident())
        if t is None or self.running != t:
            return
        if len(self.trace) >= self.horizon:
            self.capped = True
            return
        if self.max_per_label:
            k = (t, label)
            c = self.label_counts.get(k, 0) + 1
            self.label_counts[k] = c
            if c > self.max_per_label:
                return      # bound: at most K scheduling points per (thread, code location)
        others = [u for u in range(self.n) if not self.finished[u] and u != t]
        if not others:
            # a single enabled thread: not a real choice, but keep the point so that indexes are stable
            self.trace.append((t, 1, 0, False, label))
            if len(self.trace) <= len(self.choices) and self.choices[len(self.trace) - 1] != 0:
                self.error = Divergence("point %d: choice %d with a single enabled thread" % (len(self.trace) - 1, self.choices[len(self.trace) - 1]))
            return
        nxt = self.decide(t, [t] + others, label, True)
        if nxt != t:
            self.running = nxt
            self.sems[nxt].release()
            self.sems[t].acquire()

    def _thread(self, t):
        self.ids[threading.get_ident()] = t
        self.sems[t].acquire()
        try:
            self.results[t] = ("ok", self.bodies[t]())
        except BaseException as e:  # the body's own exception is a result
            self.results[t] = ("exc", type(e).__name__, str(e)[:200])
        self.finished[t] = True
        enabled = [u for u in range(self.n) if not self.finished[u]]
        if enabled:
            nxt = self.decide(t, enabled, ("finish", t), False)
            self.running = nxt
            self.sems[nxt].release()
        else:
            self.running = None
            self.done.set()

    def run(self, timeout=120):
        global _state
        threads = [threading.Thread(target=self._thread, args=(i,), daemon=True) for i in range(self.n)]
        _state = self
        try:
            for th in threads:
                th.start()
            # wait until all registered
            import time

            t0 = time.time()
            while len(self.ids) < self.n:
                time.sleep(0.0005)
                if time.time() - t0 > 10:
                    raise RuntimeError("threads did not start")
            first = self.decide(-1, list(range(self.n)), ("start",), False)
            self.running = first
            self.sems[first].release()
            ok = self.done.wait(timeout)
            deadlock = not ok
        finally:
            _state = None
        if deadlock:
            return {"deadlock": True, "trace": self.trace, "results": self.results}
        for th in threads:
            th.join(5)
        if self.error:
            raise self.error
        return {"deadlock": False, "trace": self.trace, "results": self.results, "capped": self.capped}


MAX_PER_LABEL = [None]


def run_schedule(make_bodies, choices, granularity, horizon=200000):
    install(granularity)
    from . import modstate

    modstate.restore()          # every execution starts from the same (cold) module-level state
    ex = Execution(make_bodies(), choices, horizon, MAX_PER_LABEL[0])
    return ex.run()


def explore(make_bodies, granularity, bound, judge, shard=0, nshards=1, max_exec=None, on_exec=None):
    """pre-emption bounded DFS (iterative context bounding).  judge(results) -> None or message.
    Work is partitioned over shards by the index of the first deviation point.
    returns dict(executions, points, violations=[(choices, message)], distinct_outcomes, capped)"""
    out = {"executions": 0, "points": 0, "violations": [], "outcomes": {}, "capped": False, "max_points": 0}

    def run(prefix):
        r = run_schedule(make_bodies, prefix, granularity)
        out["executions"] += 1
        out["points"] += len(r["trace"])
        out["max_points"] = max(out["max_points"], len(r["trace"]))
        if r.get("capped"):
            out["capped"] = True
        key = repr(r["results"]) if not r["deadlock"] else "DEADLOCK"
        out["outcomes"][key] = out["outcomes"].get(key, 0) + 1
        msg = "deadlock: no thread finished within the horizon" if r["deadlock"] else judge(r["results"])
        if msg:
            # re-run twice: the same schedule must fail every time before it is reported
            again = [run_schedule(make_bodies, prefix, granularity) for _ in range(2)]
            if all((a["deadlock"] and r["deadlock"]) or (not a["deadlock"] and judge(a["results"]) == msg) for a in again):
                out["violations"].append((list(prefix), msg, [t[4] for t in r["trace"][max(0, len(prefix) - 3): len(prefix) + 1]]))
            else:
                raise Divergence("schedule %r failed once but not on re-run: nondeterminism not under control" % (prefix,))
        if on_exec:
            on_exec(prefix, r)
        return r

    def rec(prefix, used, top):
        r = run(prefix)
        if max_exec and out["executions"] >= max_exec:
            out["capped"] = True
            return
        trace = r["trace"]
        taken = [t[2] for t in trace]
        for i in range(len(prefix), len(trace)):
            t, nopt, c, _, label = trace[i]
            if nopt <= 1:
                continue
            if top and (i % nshards) != shard:
                continue
            # is switching here a pre-emption?  (yes when the running thread is still enabled: label is not finish/start)
            preempt = not (isinstance(label, tuple) and label and label[0] in ("finish", "start"))
            cost = used + (1 if preempt else 0)
            if cost > bound:
                continue
            for alt in range(1, nopt):
                if max_exec and out["executions"] >= max_exec:
                    out["capped"] = True
                    return
                rec(taken[:i] + [alt], cost, False)

    # top level: every choice of the starting thread (not a pre-emption), then the deviation points of each of these
    # executions are partitioned over the shards by index; deeper levels are explored by the shard that owns the first deviation
    first = run_schedule(make_bodies, [], granularity)
    nstart = first["trace"][0][1] if first["trace"] else 1
    for start_choice in range(nstart):
        root = [start_choice] if start_choice else []
        if shard == 0:
            r = run(root)
        else:
            r = run_schedule(make_bodies, root, granularity)
        trace = r["trace"]
        taken = [t[2] for t in trace]
        for i in range(1, len(trace)):
            t, nopt, c, _, label = trace[i]
            if nopt <= 1 or (i % nshards) != shard:
                continue
            preempt = not (isinstance(label, tuple) and label and label[0] in ("finish", "start"))
            cost = 1 if preempt else 0
            if cost > bound:
                continue
            for alt in range(1, nopt):
                if max_exec and out["executions"] >= max_exec:
                    out["capped"] = True
                    return out
                rec(taken[:i] + [alt], cost, False)
    return out
