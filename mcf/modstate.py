"""Module-level state of the mappyfile package: snapshot once, restore before every execution so that every
explored execution / history starts cold (a process-wide cache introduced by a change would otherwise only be
cold in the very first execution of a long-lived worker)."""
from __future__ import annotations

import copy
import sys
import types

_snap = None


def _containers():
    """(owner, name, object) for every module-level / class-level mutable container and every cache_clear-able callable"""
    out = []
    for mname, mod in list(sys.modules.items()):
        if mod is None or not (mname == "mappyfile" or mname.startswith("mappyfile.")):
            continue
        for name, obj in list(vars(mod).items()):
            if name.startswith("__"):
                continue
            if isinstance(obj, (dict, list, set)):
                out.append((mod, name, obj))
            elif hasattr(obj, "cache_clear") and callable(getattr(obj, "cache_clear")):
                out.append((mod, name, obj))
            elif isinstance(obj, type) and getattr(obj, "__module__", "").startswith("mappyfile"):
                for cname, cobj in list(vars(obj).items()):
                    if cname.startswith("__"):
                        continue
                    if isinstance(cobj, (dict, list, set)):
                        out.append((obj, cname, cobj))
                    elif hasattr(cobj, "cache_clear"):
                        out.append((obj, cname, cobj))
                    elif isinstance(cobj, (types.FunctionType, classmethod, staticmethod)):
                        f = getattr(cobj, "__func__", cobj)
                        if hasattr(f, "cache_clear"):
                            out.append((obj, cname, f))
    return out


def snapshot():
    global _snap
    import mappyfile  # noqa: F401
    import mappyfile.cli  # noqa: F401

    _snap = []
    for owner, name, obj in _containers():
        if isinstance(obj, (dict, list, set)):
            try:
                _snap.append((owner, name, obj, copy.deepcopy(obj)))
            except Exception:
                _snap.append((owner, name, obj, copy.copy(obj)))
        else:
            _snap.append((owner, name, obj, None))


def restore():
    """restore every snapshotted container in place, clear caches, and reset containers that appeared since"""
    if _snap is None:
        snapshot()
        return
    known = set()
    for owner, name, obj, content in _snap:
        known.add((id(owner), name))
        if content is None:
            try:
                obj.cache_clear()
            except Exception:
                pass
            continue
        try:
            if isinstance(obj, dict):
                if obj != content:
                    obj.clear()
                    obj.update(copy.copy(content))
            elif isinstance(obj, list):
                if obj != content:
                    obj[:] = list(content)
            elif isinstance(obj, set):
                if obj != content:
                    obj.clear()
                    obj.update(content)
        except Exception:
            pass
