from .vocab import object_list_keys  # noqa: F401
