"""LALR-automaton explorer: enumerates parser contexts (top-k of the LR state stack) of the table the REAL
Parser built from mapfile.lark, with a shortest token path to each, using Lark's InteractiveParser.
Verdicts never come from here: every text derived from a context is replayed through the real loads."""
from __future__ import annotations

import collections

from . import impl

IGNORED = {"COMMENT", "CCOMMENT", "WS", "_NL"}

REGEX_LEXEMES = {
    "PATH": ["./a/b.shp", "data/x.tif"],
    "DOUBLE_QUOTED_HEXCOLOR": ['"#ff00aa"'],
    "SINGLE_QUOTED_HEXCOLOR": ["'#F0A'"],
    "SIGNED_FLOAT": ["2.5", "-0.5"],
    "SIGNED_INT": ["7", "-3"],
    "UNQUOTED_STRING": ["abc", "NAME", "name", "TYPE", "color", "circle", "ows_title", "NORMAL"],
    "UNQUOTED_STRING_SPACE": ["a b"],
    "DOUBLE_QUOTED_STRING": ['"s t"', '"x"i'],
    "SINGLE_QUOTED_STRING": ["'q'"],
    "ESCAPED_STRING": ["`2020-01-01`"],
    "REGEXP1": ["/ab+/", "/x/i"],
    "REGEXP2": ["\\\\ab\\\\"],
    "RUNTIME_VAR": ["%var%"],
    "UNQUOTED_STRING_VALUE": ["circle"],
}


class Explorer:
    def __init__(self, k=3):
        self.k = k
        self.parser = impl.parser(True, False)
        self.lark = self.parser.lalr
        self.terms = {}
        for t in self.lark.terminals:
            if t.name in IGNORED:
                continue
            if type(t.pattern).__name__ == "PatternStr":
                v = t.pattern.value
                lex = [v]
                if v.isalpha():
                    lex.append(v.lower())
                self.terms[t.name] = lex
            else:
                self.terms[t.name] = list(REGEX_LEXEMES.get(t.name, []))
        self.unmodelled = [n for n, l in self.terms.items() if not l]
        self.term_names = sorted(n for n, l in self.terms.items() if l)

    def start(self):
        return self.lark.parse_interactive("")

    def ctx(self, ip):
        return tuple(ip.parser_state.state_stack[-self.k:])

    def feed(self, ip, ttype, lexeme):
        from lark import Token

        ip2 = ip.copy()
        ip2.feed_token(Token(ttype, lexeme))
        return ip2

    def contexts(self, max_contexts=None, progress=None):
        """BFS over contexts; returns dict ctx -> (token path [(type, lexeme)], ip)"""
        ip0 = self.start()
        seen = {self.ctx(ip0): ([], ip0)}
        q = collections.deque([self.ctx(ip0)])
        while q:
            c = q.popleft()
            path, ip = seen[c]
            if progress:
                progress()
            for tname in sorted(ip.accepts()):
                if tname == "$END" or tname not in self.terms or not self.terms[tname]:
                    continue
                try:
                    ip2 = self.feed(ip, tname, self.terms[tname][0])
                except Exception:
                    continue
                c2 = self.ctx(ip2)
                if c2 not in seen:
                    seen[c2] = (path + [(tname, self.terms[tname][0])], ip2)
                    q.append(c2)
                    if max_contexts and len(seen) >= max_contexts:
                        return seen
        return seen

    CLOSERS = ["_END", "RPAR", "RBRACE", "RSQB", "SIGNED_INT", "DOUBLE_QUOTED_STRING", "UNQUOTED_STRING", "$END"]

    def completion(self, ip, limit=10):
        """shortest-ish token list that completes the sentence from ip (greedy BFS over closers); None if not found"""
        q = collections.deque([([], ip)])
        seen = set()
        while q:
            path, cur = q.popleft()
            acc = cur.accepts()
            if "$END" in acc:
                return path
            if len(path) >= limit:
                continue
            for tname in self.CLOSERS:
                if tname in acc and tname != "$END":
                    try:
                        nxt = self.feed(cur, tname, self.terms[tname][0])
                    except Exception:
                        continue
                    key = tuple(nxt.parser_state.state_stack)
                    if key in seen:
                        continue
                    seen.add(key)
                    q.append((path + [(tname, self.terms[tname][0])], nxt))
        return None

    def table_size(self):
        try:
            states = self.lark.parser.parser._parse_table.states
            return len(states), sum(len(v) for v in states.values())
        except Exception:
            return None, None
