"""S6: the shipped corpus (every *.map under tests/ and docs/)."""
import os

from .runner import REPO


def files():
    out = []
    for top in ("tests", "docs"):
        for dp, dn, fn in os.walk(os.path.join(REPO, top)):
            dn.sort()
            for f in sorted(fn):
                if f.lower().endswith(".map"):
                    out.append(os.path.join(dp, f))
    return out


def read(path):
    """text of a corpus file, or None when it is not UTF-8 (mappyfile itself refuses those)"""
    try:
        with open(path, encoding="utf-8") as f:
            return f.read()
    except UnicodeDecodeError:
        return None
