"""Independent reader of the text dumps() emits: a hand-written lexer (lexical classes) and a
line-oriented block-structure reader.  Knows nothing about Lark, tokens.py or the printer."""
from __future__ import annotations

import re

OPENERS = {
    "MAP", "LAYER", "CLASS", "STYLE", "LABEL", "LEADER", "LEGEND", "SCALEBAR", "QUERYMAP", "REFERENCE", "WEB",
    "OUTPUTFORMAT", "SYMBOL", "FEATURE", "GRID", "JOIN", "CLUSTER", "COMPOSITE", "SCALETOKEN", "SYMBOLSET",
    "METADATA", "VALIDATION", "VALUES", "CONNECTIONOPTIONS", "PROJECTION", "POINTS", "PATTERN",
}
KV = {"METADATA", "VALIDATION", "VALUES", "CONNECTIONOPTIONS"}

NUM_RE = re.compile(r"[-+]?(\d+\.\d*|\.\d+|\d+)([eE][-+]?\d+)?(?![A-Za-z0-9_])")
WORD_RE = re.compile(r"[^\s\"'#\[\](){}]+")


class ReadError(Exception):
    pass


class Tk:
    __slots__ = ("cls", "text", "pos", "line", "col")

    def __init__(self, cls, text, pos, line, col):
        self.cls, self.text, self.pos, self.line, self.col = cls, text, pos, line, col

    def __repr__(self):
        return "%s:%r" % (self.cls, self.text)


def _balanced(s, i, open_, close):
    depth = 0
    j = i
    n = len(s)
    last = ""           # last significant character: a '/' after an operator or opener starts a /regex/, after an operand it divides
    while j < n:
        c = s[j]
        if c == "/" and (last == "" or last in "(~=,!<>*" or last.isalpha() and s[max(0, j - 4):j].strip().upper().endswith(("AND", "OR", "NOT", "IN", "LIKE"))):
            k = s.find("/", j + 1)
            nl = s.find("\n", j + 1)
            if k > 0 and (nl < 0 or k < nl):
                j = k + 1
                last = "/"
                continue
        if not c.isspace():
            last = c
        if c in "\"'`":
            k = j + 1
            while k < n and s[k] != c:
                if s[k] == "\\" and k + 1 < n:
                    k += 1
                k += 1
            j = k
        elif c == open_:
            depth += 1
        elif c == close:
            depth -= 1
            if depth == 0:
                return j + 1
        j += 1
    raise ReadError("unbalanced %s at %d" % (open_, i))


def lex(text):
    """tokens of a dumps() output.  Classes: qstr num word attr expr list regex comment nl"""
    toks = []
    i, n = 0, len(text)
    line, col = 1, 1

    def adv(j):
        nonlocal i, line, col
        for ch in text[i:j]:
            if ch == "\n":
                line += 1
                col = 1
            else:
                col += 1
        i = j

    while i < n:
        c = text[i]
        if c == "\n":
            toks.append(Tk("nl", "\n", i, line, col))
            adv(i + 1)
        elif c == "\r" and text[i:i + 2] == "\r\n":
            toks.append(Tk("nl", "\r\n", i, line, col))
            adv(i + 2)
        elif c in " \t\f\r":
            adv(i + 1)
        elif c == "#":
            j = text.find("\n", i)
            j = n if j < 0 else j
            if text[j - 1:j] == "\r":
                j -= 1
            toks.append(Tk("comment", text[i:j], i, line, col))
            adv(j)
        elif text[i:i + 2] == "/*":
            j = text.find("*/", i + 2)
            if j < 0:
                raise ReadError("unterminated /* at %d" % i)
            toks.append(Tk("comment", text[i:j + 2], i, line, col))
            adv(j + 2)
        elif c in "\"'":
            j = i + 1
            while j < n and text[j] != c:
                if text[j] == "\\" and j + 1 < n and text[j + 1] == c:
                    j += 1
                j += 1
            if j >= n:
                raise ReadError("unterminated string at line %d col %d" % (line, col))
            j += 1
            if text[j:j + 1] == "i" and not WORD_RE.match(text[j + 1:j + 2] or " "):
                j += 1
            toks.append(Tk("qstr", text[i:j], i, line, col))
            adv(j)
        elif c == "[":
            j = text.find("]", i)
            if j < 0:
                raise ReadError("unterminated [ at %d" % i)
            toks.append(Tk("attr", text[i:j + 1], i, line, col))
            adv(j + 1)
        elif c == "(":
            j = _balanced(text, i, "(", ")")
            toks.append(Tk("expr", text[i:j], i, line, col))
            adv(j)
        elif c == "{":
            j = _balanced(text, i, "{", "}")
            toks.append(Tk("list", text[i:j], i, line, col))
            adv(j)
        elif c == "/":
            j = i + 1
            while j < n and text[j] != "/" and text[j] != "\n":
                j += 1
            if j >= n or text[j] != "/":
                raise ReadError("unterminated /regex/ at line %d" % line)
            j += 1
            if text[j:j + 1] == "i":
                j += 1
            toks.append(Tk("regex", text[i:j], i, line, col))
            adv(j)
        else:
            m = NUM_RE.match(text, i)
            if m:
                toks.append(Tk("num", m.group(0), i, line, col))
                adv(m.end())
                continue
            m = WORD_RE.match(text, i)
            if not m:
                raise ReadError("unexpected character %r at line %d col %d" % (c, line, col))
            toks.append(Tk("word", m.group(0), i, line, col))
            adv(m.end())
    return toks


def unquote(tok_text):
    """content of a quoted string token (outer quotes and an 'i' suffix removed, \\q un-escaped)"""
    t = tok_text
    if t.endswith("i") and len(t) > 2 and t[-2] == t[0]:
        t = t[:-1]
    q = t[0]
    return t[1:-1].replace("\\" + q, q)


class Line:
    __slots__ = ("indent", "toks", "comment", "lineno", "raw")

    def __init__(self, indent, toks, comment, lineno, raw):
        self.indent, self.toks, self.comment, self.lineno, self.raw = indent, toks, comment, lineno, raw

    def __repr__(self):
        return "Line(%r,%r,%r)" % (self.indent, self.toks, self.comment)


def split_lines(text, newline):
    """physical lines (split on the newline string only) -> Line objects.  Quoted strings may span lines:
    lexing is done on the whole text, lines are then cut at 'nl' tokens outside strings."""
    toks = lex(text)
    lines = []
    cur = []
    start = 0
    lineno = 1
    for t in toks + [Tk("nl", "", len(text), 0, 0)]:
        if t.cls == "nl":
            raw = text[start:t.pos]
            indent = raw[: len(raw) - len(raw.lstrip(" \t"))]
            comments = [x for x in cur if x.cls == "comment"]
            body = [x for x in cur if x.cls != "comment"]
            lines.append(Line(indent, body, comments, lineno, raw))
            cur = []
            start = t.pos + len(t.text)
            lineno += 1
        else:
            cur.append(t)
    return lines, toks


class Node:
    __slots__ = ("name", "indent", "items", "end_indent", "end_comment", "lineno", "above_comments", "end_lineno")

    def __init__(self, name, indent, lineno):
        self.name, self.indent, self.lineno = name, indent, lineno
        self.items = []
        self.end_indent = None
        self.end_comment = []
        self.above_comments = []
        self.end_lineno = None


def structure(text, newline="\n"):
    """block tree of a dumps() output written one statement per line.
    returns list of root Nodes.  items are Node or Line (keyword / pair / value lines)"""
    lines, _ = split_lines(text, newline)
    roots = []
    stack = []
    pending_comments = []
    for ln in lines:
        if not ln.toks:
            if ln.comment:
                pending_comments.extend(ln.comment)
            continue
        first = ln.toks[0]
        in_kv = bool(stack) and stack[-1].name in KV
        if first.cls == "word" and first.text.upper() == "END" and len(ln.toks) == 1:
            if not stack:
                raise ReadError("END without opener at line %d" % ln.lineno)
            node = stack.pop()
            node.end_indent = ln.indent
            node.end_comment = ln.comment
            node.end_lineno = ln.lineno
            pending_comments = []
            continue
        if len(ln.toks) == 1 and first.cls == "word" and first.text.upper() in OPENERS and not in_kv and \
                not (stack and stack[-1].name == "PROJECTION"):
            node = Node(first.text.upper(), ln.indent, ln.lineno)
            node.above_comments = pending_comments
            pending_comments = []
            if stack:
                stack[-1].items.append(node)
            else:
                roots.append(node)
            stack.append(node)
            continue
        pending_comments = []
        if not stack:
            raise ReadError("statement outside any block at line %d: %r" % (ln.lineno, ln.raw))
        stack[-1].items.append(ln)
    if stack:
        raise ReadError("missing END for %s" % stack[-1].name)
    return roots
