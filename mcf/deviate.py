"""Deviation-bounded exploration of surface renderings: every site x kind with 0, 1 (and 2) deviations
from the canonical rendering, plus the uniform renderings."""
from __future__ import annotations

import itertools

from . import docmodel as D

CASES = ["lower", "title", "alt"]
GAPS = [" ", "\t", " \f ", "\n", "\r\n", " # c\n", " /* c */ ", "/*c*/", "\n\n\t  ", " /** c **/ ", " /* a * b / c */ ", " /**/ ", " /* l1\n l2 */ ",
        " # c /* not a c-comment\n", " ## c\n"]


def sites(tree):
    """list of single deviations: ('case', i, policy) ('gap', i, text) ('quote', i, q) ('bare', i)"""
    _, toks = D.render(tree)
    out = []
    for i, t in enumerate(toks):
        if t.kind == "kwd":
            for c in CASES:
                out.append(("case", i, c))
        if i > 0:
            for g in GAPS:
                out.append(("gap", i, g))
        if t.kind in ("str", "hex") and "'" not in (t.raw or "") and '"' not in (t.raw or ""):
            out.append(("quote", i, "'"))
        if t.kind == "str" and D.is_bareable(t.raw or ""):
            out.append(("bare", i))
    return out


def style_for(devs):
    st = D.Style()
    for d in devs:
        if d[0] == "case":
            st.tokcase[d[1]] = d[2]
        elif d[0] == "gap":
            st.gaps[d[1]] = d[2]
        elif d[0] == "quote":
            st.tokquote[d[1]] = d[2]
        elif d[0] == "bare":
            st.tokbare.add(d[1])
    return st


def compatible(a, b):
    return not (a[0] == b[0] and a[1] == b[1]) and not ({a[0], b[0]} == {"quote", "bare"} and a[1] == b[1])


def deviations(tree, bound):
    s = sites(tree)
    for d in s:
        yield (d,)
    if bound >= 2:
        for a, b in itertools.combinations(s, 2):
            if compatible(a, b):
                yield (a, b)


UNIFORM = [
    ("all lower", dict(kwcase="lower")),
    ("all title", dict(kwcase="title")),
    ("all alt-case", dict(kwcase="alt")),
    ("single quotes", dict(quote="'")),
    ("bare strings", dict(bare=True)),
    ("crlf", dict(newline="\r\n")),
    ("one line", dict(oneline=True)),
    ("tabs only", dict(default_gap="\t")),
    ("hash comments everywhere", dict(default_gap=" # c\n")),
    ("c comments everywhere", dict(default_gap=" /* c */ ")),
    ("glued c comments", dict(default_gap="/*c*/")),
    ("starred c comments", dict(default_gap=" /** c **/ ")),
    ("lower + starred comments", dict(kwcase="lower", default_gap=" /*** c ***/ ")),
    ("form feeds", dict(default_gap=" \f ")),
    ("lower+squote+bare+crlf", dict(kwcase="lower", quote="'", bare=True, newline="\r\n")),
]
