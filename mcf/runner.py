"""Shared runner: process pool, tiers, evidence writer, replay files, known-findings matching.

A property module (mcf/props/cNN.py) provides

    ID                      'C17'
    LEVEL_TEXT              short description used in evidence
    units(tier)          -> list of picklable work units (deterministic order)
    run_unit(unit)       -> UnitResult (see new_result / add_* helpers below)
    describe(tier)       -> dict  (bounds, alphabet sizes; goes into coverage)
    ASSUMPTIONS             list[str]
    replay(data)         -> violation dict or None   (re-executes one recorded case, no explorer)
    init_worker()           optional, run once in every worker process

Every execution of the real implementation is one "transition"; `states` are distinct canonical
observations (hashes).  Nothing here samples: units are enumerated completely and in a fixed order.
"""
from __future__ import annotations

import hashlib
import json
import logging
import multiprocessing as mp
import os
import sys
import time
import traceback

VERIF = os.path.dirname(os.path.dirname(os.path.abspath(__file__)))
REPO = os.environ.get("MCF_REPO", "/repo")
EVIDENCE_DIR = os.environ.get("MCF_EVIDENCE_DIR") or os.path.join(VERIF, "evidence")
REPLAY_DIR = os.environ.get("MCF_REPLAY_DIR") or os.path.join(VERIF, "replays")
KNOWN_FILE = os.path.join(VERIF, "known_findings.json")

MAX_VIOL_PER_UNIT = 400
MAX_REPORTED = int(os.environ.get("MCF_MAX_REPORTED", "40"))


def h64(obj) -> int:
    """stable 64-bit hash of a JSON-able / repr-able observation"""
    if not isinstance(obj, (str, bytes)):
        obj = repr(obj)
    if isinstance(obj, str):
        obj = obj.encode("utf-8", "surrogatepass")
    return int.from_bytes(hashlib.blake2b(obj, digest_size=8).digest(), "big")


def new_result():
    return {
        "evals": 0,          # executions of the real implementation ("transitions")
        "states": set(),     # hashes of distinct canonical observations
        "outcomes": {},      # category -> count
        "violations": [],    # list of dicts: sig, what, case (replayable), detail
        "samples": [],       # a few explored cases written out
        "sub": {},           # sub-space name -> executions
        "caps": [],          # caps hit
        "skipped": {},       # reason -> count (unmodelled / oracle disagreement ...)
    }


def add_outcome(res, cat, n=1):
    res["outcomes"][cat] = res["outcomes"].get(cat, 0) + n


def add_sub(res, name, n=1):
    res["sub"][name] = res["sub"].get(name, 0) + n


def add_skip(res, reason, n=1):
    res["skipped"][reason] = res["skipped"].get(reason, 0) + n


def add_violation(res, sig, what, case, detail=None):
    if len(res["violations"]) < MAX_VIOL_PER_UNIT:
        for v in res["violations"]:
            if v["sig"] == sig:
                v["count"] += 1
                return
        res["violations"].append(
            {"sig": sig, "what": what, "case": case, "detail": detail, "count": 1}
        )
    else:
        res["caps"].append("violations per unit capped at %d" % MAX_VIOL_PER_UNIT)


def add_sample(res, sample, limit=3):
    if len(res["samples"]) < limit:
        res["samples"].append(sample)


def merge(total, r):
    total["evals"] += r["evals"]
    total["states"] |= r["states"]
    for k, v in r["outcomes"].items():
        total["outcomes"][k] = total["outcomes"].get(k, 0) + v
    for k, v in r["sub"].items():
        total["sub"][k] = total["sub"].get(k, 0) + v
    for k, v in r["skipped"].items():
        total["skipped"][k] = total["skipped"].get(k, 0) + v
    for c in r["caps"]:
        if c not in total["caps"]:
            total["caps"].append(c)
    for v in r["violations"]:
        for w in total["violations"]:
            if w["sig"] == v["sig"]:
                w["count"] += v["count"]
                break
        else:
            total["violations"].append(v)
    total["samples"].extend(r["samples"])


_MOD = None


def _worker_init(modname):
    global _MOD
    logging.disable(logging.CRITICAL)
    import importlib

    _MOD = importlib.import_module(modname)
    if hasattr(_MOD, "init_worker"):
        _MOD.init_worker()


def _worker_run(unit):
    try:
        return ("ok", _MOD.run_unit(unit))
    except BaseException:  # harness failure, never a property verdict
        return ("harness_error", "unit %r\n%s" % (unit, traceback.format_exc()))


def load_known(prop_id):
    if not os.path.exists(KNOWN_FILE):
        return []
    with open(KNOWN_FILE, encoding="utf-8") as f:
        data = json.load(f)
    return [e for e in data.get("findings", []) if e.get("property") == prop_id and e.get("status", "open") == "open"]


def write_replay(prop_id, v):
    d = os.path.join(REPLAY_DIR, prop_id)
    os.makedirs(d, exist_ok=True)
    sha = hashlib.sha1(v["sig"].encode("utf-8", "surrogatepass")).hexdigest()[:16]
    path = os.path.join(d, sha + ".json")
    with open(path, "w", encoding="utf-8") as f:
        json.dump(
            {"property": prop_id, "sig": v["sig"], "what": v["what"], "case": v["case"], "detail": v["detail"]},
            f, indent=1, ensure_ascii=True, default=repr,
        )
    return path


def jsonable(x, depth=0):
    if isinstance(x, (str, int, float, bool)) or x is None:
        return x
    if isinstance(x, dict):
        return {str(k): jsonable(v, depth + 1) for k, v in x.items()}
    if isinstance(x, (list, tuple)):
        return [jsonable(v, depth + 1) for v in x]
    return repr(x)


def run(mod, tier, nproc=None):
    """one scratch directory per run: every temporary file of the workers lives under it and goes with it (pool workers leave through
    os._exit, so nothing they register with atexit is ever run)"""
    import shutil
    import tempfile

    scratch = tempfile.mkdtemp(prefix="mcf_run_")
    old = tempfile.tempdir
    tempfile.tempdir = scratch
    try:
        return _run(mod, tier, nproc)
    finally:
        tempfile.tempdir = old
        shutil.rmtree(scratch, ignore_errors=True)


def _run(mod, tier, nproc=None):
    t0 = time.time()
    prop_id = mod.ID
    seed = int(os.environ.get("VERIF_SEED", "0") or 0)
    logging.disable(logging.CRITICAL)
    units = list(mod.units(tier))
    nproc = nproc or int(os.environ.get("MCF_PROCS", "0") or 0) or min(16, os.cpu_count() or 1)
    total = new_result()
    harness_errors = []
    serial = getattr(mod, "SERIAL", False) or nproc == 1 or len(units) <= 1
    if serial:
        _worker_init(mod.__name__)
        results = map(_worker_run, units)
    else:
        ctx = mp.get_context("fork")
        pool = ctx.Pool(min(nproc, len(units)), initializer=_worker_init, initargs=(mod.__name__,))
        results = pool.imap_unordered(_worker_run, units, chunksize=1)
    for status, r in results:
        if status == "ok":
            merge(total, r)
        else:
            harness_errors.append(r)
    if not serial:
        pool.close()
        pool.join()

    if harness_errors:
        sys.stdout.write("HARNESS-ERROR property=%s (%d units)\n%s\n" % (prop_id, len(harness_errors), harness_errors[0]))
        # a broken harness is not a verdict about the property
        write_evidence(mod, tier, seed, total, t0, note="harness error: " + harness_errors[0][-400:], nunits=len(units))
        return 2

    known = load_known(prop_id)
    known_sigs = {e["sig"]: e for e in known}
    matched = {}
    fresh = []
    for v in sorted(total["violations"], key=lambda v: (len(v["sig"]), v["sig"])):
        e = known_sigs.get(v["sig"])
        if e is not None:
            matched[v["sig"]] = (e, v)
        else:
            fresh.append(v)
    for sig, (e, v) in sorted(matched.items()):
        sys.stdout.write("KNOWN-FINDING: property=%s %s [%s] (x%d)\n" % (prop_id, e.get("what", ""), sig, v["count"]))
    for v in fresh[:MAX_REPORTED]:
        path = write_replay(prop_id, v)
        sys.stdout.write("VIOLATION property=%s replay=%s\n" % (prop_id, path))
        sys.stdout.write("  what: %s\n  sig: %s (x%d)\n" % (v["what"], v["sig"], v["count"]))
    if len(fresh) > MAX_REPORTED:
        sys.stdout.write("  ... %d more distinct violations not listed\n" % (len(fresh) - MAX_REPORTED))

    write_evidence(mod, tier, seed, total, t0, nunits=len(units), fresh=fresh, matched=matched)
    sys.stdout.write(
        "%s tier=%s executions=%d distinct_states=%d violations=%d known=%d wall=%.1fs\n"
        % (prop_id, tier, total["evals"], len(total["states"]), len(fresh), len(matched), time.time() - t0)
    )
    return 1 if fresh else 0


def write_evidence(mod, tier, seed, total, t0, note=None, nunits=0, fresh=(), matched=()):
    os.makedirs(EVIDENCE_DIR, exist_ok=True)
    samples = total["samples"]
    if samples:
        k = seed % len(samples)
        samples = (samples[k:] + samples[:k])[:8]
    desc = mod.describe(tier) if hasattr(mod, "describe") else {}
    capped = bool(total["caps"])
    cov = {
        "states": len(total["states"]),
        "transitions": total["evals"],
        "traces_validated_against_impl": total["evals"],
        "samples": jsonable(samples) or ["<none>"],
        "evaluations": total["evals"],
        "distinct_nontrivial": len(total["states"]),
        "rule": desc.get("rule", "every element of the stated finite space is executed against the real implementation; a state is a distinct canonical observation (hash)"),
        "exhaustive": (not capped) and not note,
        "work_units": nunits,
        "sub_spaces": dict(sorted(total["sub"].items())),
        "outcomes": dict(sorted(total["outcomes"].items())),
        "distinct_outcome_categories": len(total["outcomes"]),
        "skipped_not_judged": total["skipped"],
        "caps_hit": total["caps"],
        "bounds": desc.get("bounds", {}),
        "explanation": getattr(mod, "LEVEL_TEXT", ""),
        "known_findings_matched": sorted(matched) if matched else [],
        "new_violation_sigs": [v["sig"] for v in fresh][:50],
    }
    if note:
        cov["note"] = note
    ev = {
        "property_id": mod.ID,
        "tier": tier,
        "seed": seed,
        "level": "model_checking",
        "coverage": cov,
        "assumptions": list(getattr(mod, "ASSUMPTIONS", [])),
        "wall_s": round(time.time() - t0, 2),
        "violations": len(fresh),
    }
    path = os.path.join(EVIDENCE_DIR, mod.ID + ".json")
    tmp = path + ".tmp"
    with open(tmp, "w", encoding="utf-8") as f:
        json.dump(ev, f, indent=1, ensure_ascii=True, default=repr)
        f.write("\n")
    os.replace(tmp, path)


def run_replay(mod, path):
    logging.disable(logging.CRITICAL)
    with open(path, encoding="utf-8") as f:
        data = json.load(f)
    if hasattr(mod, "init_worker"):
        mod.init_worker()
    v = mod.replay(data["case"])
    if v:
        sys.stdout.write("VIOLATION property=%s replay=%s\n  %s\n" % (mod.ID, path, json.dumps(jsonable(v), ensure_ascii=True)[:2000]))
        return 1
    sys.stdout.write("replay of %s: property holds for this case\n" % path)
    return 0
