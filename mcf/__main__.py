import argparse
import importlib
import os
import sys


def main():
    ap = argparse.ArgumentParser(prog="check")
    ap.add_argument("prop")
    ap.add_argument("--tier", default=os.environ.get("VERIF_TIER", "quick"), choices=["quick", "thorough"])
    ap.add_argument("--replay")
    ap.add_argument("--procs", type=int, default=0)
    a = ap.parse_args()
    os.environ.setdefault("PYTHONHASHSEED", "0")
    from . import runner

    mod = importlib.import_module("mcf.props." + a.prop.lower())
    if a.replay:
        sys.exit(runner.run_replay(mod, a.replay))
    sys.exit(runner.run(mod, a.tier, a.procs or None))


main()
