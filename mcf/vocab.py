"""V: the schema-derived alphabet.  Read from the raw JSON schema files of the working tree.

For every object type: its keyword slots; for every slot its structural kind and its leaf value
alternatives; for every alternative a small ordered list of representatives (simplest first), each
with the token list MapServer would write and the value the documented text->dict contract yields.
"""
from __future__ import annotations

import functools

from . import schemaeval as SE

HEX_PATTERNS = ("^#([a-fA-F0-9]{6,8}|[a-fA-F0-9]{3,4})$",)
ATTR_PATTERN = "^\\[(.*?)\\]$"
EXPR_PATTERN = "^\\((.*?)\\)$"
REGEX_PATTERN = "^/(.*?)/$"
PATTERN_WITNESS = {
    "^rectangle$": ["rectangle"],
    "^ellipse$": ["ellipse"],
    "^&#[0-9]+;$": ["&#10140;"],
}

KV_BLOCKS = ("metadata", "validation", "values", "connectionoptions")
REPEATABLE_KEYWORDS = ("processing", "formatoption", "compfilter", "include")

# words the grammar reserves: a bare string equal to one of these is not a "bare-word string value"
GRAMMAR_WORDS = {
    "end", "class", "cluster", "composite", "feature", "grid", "join", "label", "layer", "leader", "legend",
    "map", "outputformat", "querymap", "reference", "scalebar", "scaletoken", "style", "web", "symbol",
    "symbolset", "projection", "config", "points", "pattern", "values", "metadata", "validation",
    "connectionoptions", "auto", "hilite", "selected", "true", "false", "null", "not", "and", "or",
    "in", "ne", "eq", "le", "lt", "ge", "gt", "like", "include",
}


class Alt:
    """one leaf value alternative of a slot"""

    def __init__(self, kind, schema, meta=None, **kw):
        self.kind = kind  # enum string attribute expression regex hexcolor pattern number integer boolean
        #                   numlist strlist attrlist mixedlist object kv points projection
        self.schema = schema
        self.meta = meta or {}
        self.__dict__.update(kw)

    def __repr__(self):
        return "Alt(%s)" % self.kind


class Rep:
    """a representative value: tokens as MapServer writes them + the value loads must yield"""

    def __init__(self, toks, value, cls, note=""):
        self.toks = toks      # list of (tokkind, text); tokkind in word str num raw hex
        self.value = value
        self.cls = cls        # lexical class expected from dumps for each token
        self.note = note

    def __repr__(self):
        return "Rep(%r)" % (self.toks,)


class Slot:
    def __init__(self, otype, key, schema):
        self.otype = otype
        self.key = key
        self.schema = schema                      # raw (un-dereferenced) slot schema
        self.meta = schema.get("metadata", {}) if isinstance(schema, dict) else {}
        self.default = schema.get("default", None) if isinstance(schema, dict) else None
        self.has_default = isinstance(schema, dict) and "default" in schema
        self.alts = flatten(schema, inherited_meta={})
        kinds = {a.kind for a in self.alts}
        self.child_type = None
        if key in KV_BLOCKS:
            self.kind = "kv"
        elif key == "config":
            self.kind = "config"
        elif key in REPEATABLE_KEYWORDS:
            self.kind = "repeated"
        elif key == "projection":
            self.kind = "projection"
        elif kinds == {"objlist"}:
            self.kind = "children"
            self.child_type = self.alts[0].child_type
        elif kinds == {"object"}:
            self.kind = "child"
            self.child_type = self.alts[0].child_type
        elif "points" in kinds and key in ("points", "pattern"):
            self.kind = key
        else:
            self.kind = "simple"
            for a in self.alts:
                if a.kind == "object":
                    self.child_type = a.child_type   # inline SYMBOL inside STYLE / CLASS

    @property
    def simple_alts(self):
        return [a for a in self.alts if a.kind not in ("object", "objlist", "kv", "points", "pointslist", "projection")]

    def __repr__(self):
        return "Slot(%s.%s %s)" % (self.otype, self.key, self.kind)


def _merge_meta(a, b):
    m = dict(a)
    for k, v in (b or {}).items():
        if k == "minVersion":
            m[k] = max(v, m.get(k, v))
        elif k == "maxVersion":
            m[k] = min(v, m.get(k, v))
    return m


def flatten(s, inherited_meta):
    """leaf alternatives of a slot schema, through $ref / oneOf / anyOf / allOf"""
    if not isinstance(s, dict):
        return []
    meta = _merge_meta(inherited_meta, s.get("metadata"))
    if "$ref" in s:
        return flatten(SE.raw(s["$ref"]), meta)
    out = []
    combos = [k for k in ("oneOf", "anyOf", "allOf") if k in s]
    if combos:
        for k in combos:
            for sub in s[k]:
                out += flatten(sub, meta)
        return out
    out.append(leaf(s, meta))
    return out


def leaf(s, meta):
    t = s.get("type")
    if "enum" in s:
        return Alt("enum", s, meta, words=list(s["enum"]))
    if t == "object" or "properties" in s:
        props = s.get("properties", {})
        if "__type__" in props:
            return Alt("object", s, meta, child_type=props["__type__"]["enum"][0])
        return Alt("kv", s, meta)
    if t == "array":
        it = s.get("items")
        if isinstance(it, dict):
            if "$ref" in it:
                it = SE.raw(it["$ref"])
            its = it
            if it.get("type") == "object" or "properties" in it:
                return Alt("objlist", s, meta, child_type=it["properties"]["__type__"]["enum"][0])
            if it.get("type") == "array":
                inner = it.get("items")
                if isinstance(inner, dict) and inner.get("type") == "array":
                    return Alt("pointslist", s, meta)
                return Alt("points", s, meta)
            n = s.get("minItems", s.get("maxItems", None))
            if "oneOf" in it or "anyOf" in it:
                # STYLE OFFSET / POLAROFFSET: each item a number or an attribute
                n = n or it.get("minItems") or 2
                return Alt("mixedlist", s, meta, n=n)
            if it.get("type") in ("number", "integer"):
                return Alt("numlist", s, meta, n=n, integer=it.get("type") == "integer", item=it)
            if it.get("type") == "string":
                if it.get("pattern") == ATTR_PATTERN:
                    return Alt("attrlist", s, meta, n=n)
                return Alt("strlist", s, meta, n=n)
        if isinstance(it, list):
            n = s.get("minItems", len(it))
            kinds = [leaf(x, {}).kind for x in it]
            if all(k in ("number", "integer") for k in kinds):
                return Alt("numlist", s, meta, n=n, integer=all(k == "integer" for k in kinds), item=it[0])
            return Alt("tuplelist", s, meta, n=n, kinds=kinds)
        return Alt("array?", s, meta)
    if t == "string" or ("pattern" in s and t is None):
        p = s.get("pattern")
        if p is None:
            return Alt("string", s, meta)
        if p == ATTR_PATTERN:
            return Alt("attribute", s, meta)
        if p == EXPR_PATTERN:
            return Alt("expression", s, meta)
        if p == REGEX_PATTERN:
            return Alt("regex", s, meta)
        if p in HEX_PATTERNS:
            return Alt("hexcolor", s, meta)
        return Alt("pattern", s, meta, pattern=p)
    if t == "number":
        return Alt("number", s, meta)
    if t == "integer":
        return Alt("integer", s, meta)
    if t == "boolean":
        return Alt("boolean", s, meta)
    return Alt("unknown", s, meta)


# ------------------------------------------------------------------ types and slots
@functools.lru_cache(None)
def object_types():
    """block types that have an object schema with a __type__ (the 19 + symbolset has no __type__)"""
    out = []
    for n in SE.schema_names():
        s = SE.raw(n)
        if isinstance(s, dict) and "__type__" in s.get("properties", {}):
            out.append(s["properties"]["__type__"]["enum"][0])
    return tuple(out)


@functools.lru_cache(None)
def slots(otype):
    s = SE.raw(otype)
    out = []
    for k, sub in s.get("properties", {}).items():
        if k.startswith("__"):
            continue
        out.append(Slot(otype, k, sub))
    return tuple(out)


def slot(otype, key):
    for s in slots(otype):
        if s.key == key:
            return s
    return None


def required(otype):
    return tuple(SE.raw(otype).get("required", []))


@functools.lru_cache(None)
def object_list_keys():
    keys = set()
    for t in object_types() + ("symbolset",):
        for s in slots(t):
            if s.kind == "children":
                keys.add(s.key)
    return frozenset(keys)


@functools.lru_cache(None)
def singleton_child_keys():
    keys = set()
    for t in object_types():
        for s in slots(t):
            if s.kind == "child":
                keys.add(s.key)
    return frozenset(keys)


def plural_of(child_type):
    """plural key under which a parent schema stores lists of child_type (read from the schemas)"""
    for t in object_types() + ("symbolset",):
        for s in slots(t):
            if s.kind == "children" and s.child_type == child_type:
                return s.key
    return None


@functools.lru_cache(None)
def containment():
    """parent type -> list of (slot key, child type, 'child'|'children'|'inline')"""
    g = {}
    for t in object_types():
        edges = []
        for s in slots(t):
            if s.kind == "child":
                edges.append((s.key, s.child_type, "child"))
            elif s.kind == "children":
                edges.append((s.key, s.child_type, "children"))
            elif s.kind == "simple" and s.child_type:
                edges.append((s.key, s.child_type, "inline"))
        g[t] = edges
    return g


def containment_paths(maxdepth=8):
    """every path in the containment graph from every root: list of [(parent, key, child, how), ...]"""
    g = containment()
    paths = []

    def rec(t, path, seen):
        for key, child, how in g.get(t, []):
            p = path + [(t, key, child, how)]
            paths.append(p)
            if len(p) < maxdepth and child not in seen:
                rec(child, p, seen | {child})

    for root in object_types():
        rec(root, [], {root})
    return paths


# ------------------------------------------------------------------ representatives
STR_REPS = ["abc", "two words", "", "ünï", "7", "a#b", "it's", "x.y/z", "1e3x", "odd\x0c\x1c\x85\u2028chars\tin it", "END", "layer", "multi \nline\t\n\nvalue ",
            # not in Unicode normal form C (decomposed accent, ANGSTROM SIGN, OHM SIGN); a continuation line that looks like a comment line
            "cafe\u0301 \u212b\u2126", "two\n  # hash line\nlines",
            # bare-able words that the grammar also knows as keyword values (AUTO / NORMAL / HILITE / SELECTED), in lower and mixed case
            "auto", "Normal"]
EXPR_REPS = [
    ("([a] = 1)", "( [a] = 1 )"),
    ('("[a]" = "x" AND [b] > 2)', '( ( "[a]" = "x" ) AND ( [b] > 2 ) )'),
]
REGEX_REPS = ["/ab+c/", "/^x$/i"]
ATTR_REPS = ["[attr]", "[ATTR_2]", "[size-px]", "[ows:colour]", "[7up]"]
HEX_REPS = ["#ff00aa", "#F0A", "#ff00aa80", "#AABBCC", "#FF00FFCC", "#AbCdEf0F", "#FADE"]


def num_candidates(integer):
    if integer:
        return [7, 0, -3, 1, 255, 100]
    return [2.5, 7, 0, -0.5, 1000.0, 0.25, 1]


def num_text(v):
    return repr(v) if isinstance(v, float) else str(v)


def reps_for(slot_, alt, valid_only=False):
    """ordered representatives for one alternative of one slot"""
    k = alt.kind
    out = []
    if k == "enum":
        for w in alt.words:
            if isinstance(w, str):
                if w.lower() == "end":
                    # an enumerated word that is also the block terminator can only be written quoted (GEOMTRANSFORM "end")
                    out.append(Rep([("str", w)], w, ["qstr"]))
                    continue
                out.append(Rep([("word", w.upper())], w.upper(), ["word"]))
            else:
                out.append(Rep([("num", str(w))], w, ["num"]))
    elif k == "string":
        for s in STR_REPS:
            out.append(Rep([("str", s)], s, ["qstr"]))
        if slot_.key == "name":
            # the parser documents one keyword-looking bare value: NAME grid (parser.py re-tags GRID after NAME)
            out.append(Rep([("word", "grid")], "grid", ["qstr"], "bare GRID after NAME"))
            out.append(Rep([("word", "GRID")], "GRID", ["qstr"], "bare GRID after NAME"))
    elif k == "pattern":
        for s in PATTERN_WITNESS.get(alt.pattern, []):
            out.append(Rep([("str", s)], s, ["qstr"]))
    elif k == "attribute":
        for s in ATTR_REPS:
            out.append(Rep([("raw", s)], s, ["attr"]))
    elif k == "expression":
        for src, norm in EXPR_REPS:
            out.append(Rep([("raw", src)], norm, ["expr"]))
    elif k == "regex":
        for s in REGEX_REPS:
            out.append(Rep([("raw", s)], s, ["regex"]))
    elif k == "hexcolor":
        for s in HEX_REPS:
            out.append(Rep([("hex", s)], s.lower(), ["qstr"]))
    elif k in ("number", "integer"):
        for v in num_candidates(k == "integer"):
            out.append(Rep([("num", num_text(v))], v, ["num"]))
    elif k == "boolean":
        out.append(Rep([("word", "TRUE")], True, ["word"]))
        out.append(Rep([("word", "FALSE")], False, ["word"]))
    elif k == "numlist":
        n = alt.n
        if n in (2, 3, 4, 6):
            # colours (3) and colour ranges (6) are written with integers by MapServer
            intonly = alt.integer or n in (3, 6)
            for base in ([1, 2, 3, 4, 5, 6], [10, 20, 30, 40, 50, 60], [0, 0, 0, 0, 0, 0], [-1, -1, -1, -1, -1, -1],
                         [0.5, 0.5, 0.5, 0.5, 0.5, 0.5] if not intonly else [255, 255, 255, 255, 255, 255]):
                vals = base[:n]
                if n == 4 and not alt.integer and base[0] == 1:
                    vals = [1, 2.5, 3, 4]
                out.append(Rep([("num", num_text(v)) for v in vals], list(vals), ["num"] * n))
    elif k == "strlist":
        n = alt.n or 2
        if n == 2:
            out.append(Rep([("hex", "#ff0000"), ("hex", "#00FF00")], ["#ff0000", "#00ff00"], ["qstr", "qstr"], "hexcolorrange"))
    elif k == "attrlist":
        out.append(Rep([("raw", "[a]"), ("raw", "[b]")], ["[a]", "[b]"], ["attr", "attr"]))
    elif k == "mixedlist":
        out.append(Rep([("num", "1"), ("num", "2")], [1, 2], ["num", "num"]))
        out.append(Rep([("raw", "[a]"), ("raw", "[b]")], ["[a]", "[b]"], ["attr", "attr"]))
        out.append(Rep([("num", "1"), ("raw", "[b]")], [1, "[b]"], ["num", "attr"]))
        out.append(Rep([("raw", "[a]"), ("num", "2.5")], ["[a]", 2.5], ["attr", "num"]))
    elif k == "tuplelist":
        if alt.kinds == ["integer", "attribute"]:
            out.append(Rep([("num", "7"), ("raw", "[a]")], [7, "[a]"], ["num", "attr"]))
    if valid_only:
        out = [r for r in out if SE.valid(SE.lower_json(r.value), slot_.schema)]
    return out


def valid_value(slot_, value, version=None):
    return SE.valid(SE.lower_json(value), slot_.schema)


@functools.lru_cache(None)
def summary():
    nt = len(object_types())
    ns = sum(len(slots(t)) for t in object_types())
    na = sum(len(s.alts) for t in object_types() for s in slots(t))
    return {"object_types": nt, "slots": ns, "alternatives": na}
