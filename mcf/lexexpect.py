"""What the text of dumps(d) must contain, item by item, as seen by the independent reader:
my own table from the statement of C03 (free strings quoted; enum words, numbers, booleans bare;
bindings / expressions / regexes / list expressions bare on the slots that admit them)."""
from __future__ import annotations

from . import vocab as V
from . import reader as RD
from .docmodel import hidden

STRUCTURAL_WORDS = {"end"}


class Refuse(Exception):
    """the dictionary holds a value without Mapfile representation: dumps must raise"""


def slot_has(slot, *kinds):
    return any(a.kind in kinds for a in slot.alts)


def enum_words(slot):
    out = set()
    for a in slot.alts:
        if a.kind == "enum":
            out |= {w.lower() for w in a.words if isinstance(w, str)}
    return out


def looks_attr(s):
    return len(s) >= 2 and s[0] == "[" and s[-1] == "]" and s.count("[") == 1 and s.count("]") == 1


def looks_paren(s):
    t = s.strip()
    return t.startswith("(") and t.endswith(")")


def looks_regex(s):
    return (len(s) >= 2 and s[0] == "/" and (s.endswith("/") or s.endswith("/i")) and s.count("/") == 2)


def looks_list(s):
    t = s.strip()
    return t.startswith("{") and t.endswith("}")


def qcontent_ok(tok, s):
    """a quoted token says s: its content equals s either verbatim (the dictionary keeps escape sequences as written: 'it\\'s' is stored
    with its backslash and written back with it) or after un-escaping the wrapping quote (a quote the printer had to escape)"""
    if tok.cls != "qstr":
        return False
    raw = tok.text[:-1] if tok.text.endswith("i") and len(tok.text) > 2 and tok.text[-2] == tok.text[0] else tok.text
    return RD.unquote(tok.text) == s or raw[1:-1] == s


def match_string(slot, key, s, toks):
    """None if toks is an acceptable rendering of string value s at this slot, else a message"""
    words = enum_words(slot)
    if len(toks) == 2 and toks[0].cls == "word" and toks[0].text == "NOT" and s.startswith("NOT ") and slot_has(slot, "expression"):
        if toks[1].cls == "expr" and toks[1].text == s[4:].strip():
            return None
        return "NOT-expression not written verbatim"
    if len(toks) != 1:
        return "expected one token for %r, found %r" % (s, toks)
    t = toks[0]
    if s.lower() in words:
        if key == "compop":
            return None if qcontent_ok(t, s) or (t.cls == "qstr" and RD.unquote(t.text).lower() == s.lower()) else "COMPOP value must be a quoted string, found %r" % t
        if s.lower() in STRUCTURAL_WORDS:
            if t.cls == "qstr" and RD.unquote(t.text).lower() == s.lower():
                return None
        if t.cls == "word" and t.text.lower() == s.lower():
            return None
        return "enumerated value %r must be written bare, found %r" % (s, t)
    if len(s) > 2 and s[0] in "\"'" and s.endswith(s[0] + "i") and slot_has(slot, "expression", "regex"):
        # case-insensitive string comparison ("abc"i) is kept verbatim, quotes included
        return None if t.cls == "qstr" and t.text == s else "case-insensitive string %r must be written verbatim, found %r" % (s, t)
    if looks_attr(s) and not slot_has(slot, "attribute") and key != "text":
        # MapServer binds attributes in more places than the schema lists (STYLE SYMBOL [attr]): either form accepted
        if (t.cls == "attr" and t.text == s) or qcontent_ok(t, s):
            return None
    if looks_attr(s) and slot_has(slot, "attribute"):
        if t.cls == "attr" and t.text == s:
            return None
        if key == "text" and qcontent_ok(t, s):
            return None
        return "attribute binding %r must be written bare, found %r" % (s, t)
    if looks_paren(s) and slot_has(slot, "expression"):
        return None if t.cls == "expr" and t.text == s.strip() else "expression %r must be written bare and verbatim, found %r" % (s, t)
    if looks_regex(s) and slot_has(slot, "regex"):
        return None if t.cls == "regex" and t.text == s else "regular expression %r must be written bare, found %r" % (s, t)
    if looks_list(s) and key == "expression":
        return None if t.cls == "list" and t.text == s.strip() else "list expression %r must be written bare, found %r" % (s, t)
    if qcontent_ok(t, s):
        return None
    return "string %r must be written as a quoted string with that content, found %r" % (s, t)


def match_number(slot, v, toks):
    if len(toks) != 1:
        return "expected one token for %r, found %r" % (v, toks)
    t = toks[0]
    if t.cls == "num":
        try:
            if float(t.text) == float(v):
                return None
        except ValueError:
            pass
        return "number %r written as %r" % (v, t.text)
    if t.cls == "qstr" and not slot_has(slot, "number", "integer", "numlist") and slot_has(slot, "string", "pattern"):
        # a number under a string-typed keyword may become the equal numeric string (C01)
        if RD.unquote(t.text) == str(v):
            return None
    return "number %r must be written bare, found %r" % (v, t)


def match_value(otype, key, v, toks):
    slot = V.slot(otype, key)
    if slot is None:
        return "SKIP-unknown-keyword"
    if isinstance(v, bool):
        if len(toks) == 1 and toks[0].cls == "word" and toks[0].text == ("TRUE" if v else "FALSE"):
            return None
        return "boolean %r must be written TRUE/FALSE bare, found %r" % (v, toks)
    if isinstance(v, (int, float)):
        return match_number(slot, v, toks)
    if isinstance(v, str):
        return match_string(slot, key, v, toks)
    if isinstance(v, (list, tuple)):
        if len(toks) != len(v):
            return "list %r written with %d tokens: %r" % (v, len(toks), toks)
        for x, t in zip(v, toks):
            if isinstance(x, bool) or x is None or isinstance(x, (list, tuple, dict)):
                return "SKIP-unmodelled-list-item"
            if isinstance(x, (int, float)):
                if not (t.cls == "num" and float(t.text) == float(x)):
                    return "number %r in list written as %r" % (x, t)
            else:
                if looks_attr(x) and slot_has(slot, "attribute", "attrlist", "mixedlist", "tuplelist"):
                    if not (t.cls == "attr" and t.text == x):
                        return "attribute binding %r in list must be bare, found %r" % (x, t)
                elif not qcontent_ok(t, x):
                    return "string %r in list must be quoted, found %r" % (x, t)
        return None
    return "SKIP-unmodelled-value"


class Exp:
    """expected item: ('line', KEY, otype, key, value) | ('node', NAME, [items]) | ('pair', k, v) | ('pstr', s) | ('nums', [x,y])"""


def expected_items(d):
    """expected item list for the body of an object dictionary; raises Refuse"""
    otype = d.get("__type__")
    olk = V.object_list_keys()
    items = []
    for k, v in d.items():
        if hidden(k):
            continue
        if k in olk and isinstance(v, list):
            for c in v:
                if not isinstance(c, dict) or "__type__" not in c:
                    raise Refuse("%s.%s holds an item without __type__ (%r): no Mapfile representation" % (otype, k, c))
                items.append(("node", c["__type__"].upper(), expected_items(c)))
        elif k == "pattern":
            items.append(("node", "PATTERN", [("nums", list(p)) for p in v]))
        elif k in V.KV_BLOCKS:
            if not isinstance(v, dict):
                items.append(("unmodelled",))
                continue
            items.append(("node", k.upper(), [("pair", kk, vv) for kk, vv in v.items() if not hidden(kk)]))
        elif k == "projection":
            if isinstance(v, str):
                items.append(("node", "PROJECTION", [("pstr", v)]))
            elif len(v) == 1 and v[0].upper() == "AUTO":
                items.append(("node", "PROJECTION", [("auto",)]))
            else:
                items.append(("node", "PROJECTION", [("pstr", s) for s in v]))
        elif k in V.REPEATABLE_KEYWORDS:
            for s in v:
                items.append(("rep", k.upper(), s))
        elif k == "points":
            parts = v if (v and isinstance(v[0], (list, tuple)) and v[0] and isinstance(v[0][0], (list, tuple))) else [v]
            for part in parts:
                items.append(("node", "POINTS", [("nums", list(p)) for p in part]))
        elif k == "config":
            if not isinstance(v, dict):
                items.append(("unmodelled",))
                continue
            for kk, vv in v.items():
                items.append(("config", kk, vv))
        elif isinstance(v, dict) and "__type__" in v:
            items.append(("node", v["__type__"].upper(), expected_items(v)))
        elif isinstance(v, dict):
            raise Refuse("%s.%s holds a dictionary without __type__ (%r): no Mapfile representation" % (otype, k, dict(v)))
        else:
            items.append(("line", k.upper(), otype, k, v))
    return items


def compare(d, text, newline="\n"):
    """None when the reader's view of text says exactly what d says; else a message.
    d: dict or list of dicts.  May raise Refuse (then dumps ought to have raised)."""
    ds = d if isinstance(d, list) else [d]
    exp = []
    for x in ds:
        t = x.get("__type__", "?")
        if t in V.KV_BLOCKS:
            exp.append(("node", t.upper(), [("pair", kk, vv) for kk, vv in x.items() if not hidden(kk)]))
        else:
            exp.append(("node", t.upper(), expected_items(x)))
    roots = RD.structure(text, newline)
    return cmp_items(exp, roots, "")


def cmp_items(exp, got, path):
    if len(exp) != len(got):
        return "%s: %d items written, %d expected (%s vs %s)" % (path or "/", len(got), len(exp), brief_got(got), brief_exp(exp))
    for e, g in zip(exp, got):
        r = cmp_item(e, g, path)
        if r:
            return r
    return None


def brief_exp(exp):
    return [e[1] if len(e) > 1 else e[0] for e in exp][:12]


def brief_got(got):
    return [(g.name if isinstance(g, RD.Node) else (g.toks[0].text if g.toks else "")) for g in got][:12]


def cmp_item(e, g, path):
    k = e[0]
    if k == "unmodelled":
        return None
    if k == "node":
        if not isinstance(g, RD.Node) or g.name != e[1]:
            return "%s: expected block %s, found %s" % (path or "/", e[1], g.name if isinstance(g, RD.Node) else g.toks)
        return cmp_items(e[2], g.items, path + "/" + e[1])
    if isinstance(g, RD.Node):
        return "%s: expected a %s line, found block %s" % (path or "/", k, g.name)
    toks = g.toks
    if k == "line":
        _, KEY, otype, key, v = e
        if not toks or toks[0].cls != "word" or toks[0].text != KEY:
            return "%s: expected keyword %s, found %r" % (path or "/", KEY, toks[:1])
        r = match_value(otype, key, v, toks[1:])
        if r and r.startswith("SKIP"):
            return None
        return None if r is None else "%s/%s: %s" % (path, KEY, r)
    if k == "rep":
        if len(toks) == 2 and toks[0].cls == "word" and toks[0].text == e[1] and qcontent_ok(toks[1], e[2]):
            return None
        return "%s: expected %s %r, found %r" % (path, e[1], e[2], toks)
    if k == "config":
        if len(toks) == 3 and toks[0].text == "CONFIG" and toks[1].cls == "qstr" and RD.unquote(toks[1].text).lower() == e[1].lower() \
                and qcontent_ok(toks[2], e[2]):
            return None
        return "%s: expected CONFIG %r %r, found %r" % (path, e[1], e[2], toks)
    if k == "pair":
        if len(toks) == 2 and qcontent_ok(toks[0], e[1]) and qcontent_ok(toks[1], e[2]):
            return None
        return "%s: expected pair %r %r, found %r" % (path, e[1], e[2], toks)
    if k == "pstr":
        if len(toks) == 1 and qcontent_ok(toks[0], e[1]):
            return None
        return "%s: expected string %r, found %r" % (path, e[1], toks)
    if k == "auto":
        if len(toks) == 1 and toks[0].cls == "word" and toks[0].text.upper() == "AUTO":
            return None
        return "%s: expected AUTO, found %r" % (path, toks)
    if k == "nums":
        if len(toks) == len(e[1]) and all(t.cls == "num" and float(t.text) == float(x) for t, x in zip(toks, e[1])):
            return None
        return "%s: expected numbers %r, found %r" % (path, e[1], toks)
    return "unknown expectation " + repr(e)
