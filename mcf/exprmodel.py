"""Expression model: AST enumerator, source renderer (parenthesisation / spelling / spacing variants) and a
reference precedence parser (hand-written Pratt parser using exactly the ladder in the statement of C10:
OR < AND < NOT < comparisons < + - < * / % ^ < unary minus; explicit parentheses respected)."""
from __future__ import annotations

import itertools
import re

# precedence levels
P_OR, P_AND, P_NOT, P_CMP, P_ADD, P_MUL, P_NEG, P_ATOM = 1, 2, 3, 4, 5, 6, 7, 8

CMP_SYMBOLS = ["=", "==", "!=", "<", "<=", ">", ">=", "~", "~*", "=*"]
CMP_WORDS = ["IN", "EQ", "NE", "LT", "LE", "GT", "GE", "LIKE"]
ALL_CMP = CMP_SYMBOLS + CMP_WORDS + [w.lower() for w in CMP_WORDS]
OR_SPELL = ["OR", "or", "||"]
AND_SPELL = ["AND", "and", "&&"]
NOT_SPELL = ["NOT", "not", "!"]
ARITH = {"+": P_ADD, "-": P_ADD, "*": P_MUL, "/": P_MUL, "^": P_MUL, "%": P_MUL}

OPERANDS = ["[a]", "[b]", "[c]", "1", "2.5", "'s'", '"s"', "`d`", "f([a],'x')", "[d]"]
# a second operand alphabet with awkward string operands (brackets, the other quote, operators inside strings)
OPERANDS_AWKWARD = ['"(x"', "[a]", "'y)'", '"it\'s"', "[b]", '"a AND b"', "'1 + (2'", "`)`", '"]["', "2.5", '"#FF0000"', "'#FfF'", '"#aBcDeF80"',
                    # quotes and brackets inside back-quoted literals
                    '`5" pipe`', "`o'clock (UTC)`",
                    # function calls whose argument is a parenthesised sub-expression
                    'tostring(([a] / 2),"%.1f")', 'length(("x" + [b]))']


def level(node):
    k = node[0]
    if k == "or":
        return P_OR
    if k == "and":
        return P_AND
    if k == "not":
        return P_NOT
    if k == "cmp":
        return P_CMP
    if k == "bin":
        return ARITH[node[1]]
    if k == "neg":
        return P_NEG
    return P_ATOM


# AST: ("or", spelling, l, r) ("and", spelling, l, r) ("not", spelling, x) ("cmp", op, l, r) ("bin", op, l, r) ("neg", x) ("atom", text)
def render(node, full_parens=False, tight=False, top=True):
    """source text of an AST (without the outermost EXPRESSION parentheses)"""
    k = node[0]

    def sub(child, parent_level, right=False):
        s = render(child, full_parens, tight, False)
        lv = level(child)
        need = lv < parent_level or (right and lv == parent_level)
        # NOT takes a comparison as operand: anything at or below NOT level needs parentheses
        if full_parens and child[0] != "atom":
            need = True
        return "(" + s + ")" if need else s

    if k == "atom":
        return node[1]
    if k in ("or", "and"):
        return "%s %s %s" % (sub(node[2], level(node)), node[1], sub(node[3], level(node), True))
    if k == "not":
        inner = sub(node[2], P_CMP)
        return "%s %s" % (node[1], inner) if node[1] != "!" or not tight else "!" + inner
    if k == "cmp":
        op = node[1]
        sp = "" if (tight and not op[0].isalpha()) else " "
        return "%s%s%s%s%s" % (sub(node[2], P_CMP), sp, op, sp, sub(node[3], P_CMP, True))
    if k == "bin":
        sp = "" if tight else " "
        return "%s%s%s%s%s" % (sub(node[2], level(node)), sp, node[1], sp, sub(node[3], level(node), True))
    if k == "neg":
        return "-" + sub(node[1], P_NEG)
    raise ValueError(node)


# ------------------------------------------------------------------ reference parser
TOKEN_RE = re.compile(r"""\s*(?:
    (?P<attr>\[[^\]]*\]) |
    (?P<num>\d+\.\d*(?:[eE][-+]?\d+)?|\.\d+|\d+(?:[eE][-+]?\d+)?) |
    (?P<str>"(?:\\"|[^"])*"i?|'(?:\\'|[^'])*'i?|`[^`]*`) |
    (?P<op>\|\||&&|>=|<=|==|!=|=\*|~\*|[=<>~!+\-*/^%(),]) |
    (?P<word>[A-Za-z_][A-Za-z0-9_]*)
)""", re.X)


class RefParseError(Exception):
    pass


def tokenize(s):
    out = []
    i = 0
    while i < len(s):
        if s[i:].strip() == "":
            break
        if out and out[-1] in (("op", "~"), ("op", "~*")) and s[i:].lstrip().startswith("/"):
            # a regular expression operand: verbatim up to its closing slash (and an optional i)
            j = i + (len(s[i:]) - len(s[i:].lstrip()))
            k = s.find("/", j + 1)
            if k < 0:
                raise RefParseError("unterminated regular expression at %d" % j)
            k += 1
            if s[k:k + 1] == "i":
                k += 1
            out.append(("str", s[j:k]))
            i = k
            continue
        m = TOKEN_RE.match(s, i)
        if not m or m.end() == i:
            raise RefParseError("cannot tokenize at %d: %r" % (i, s[i:i + 20]))
        k = m.lastgroup
        out.append((k, m.group(k)))
        i = m.end()
    return out


class Parser:
    def __init__(self, toks):
        self.t = toks
        self.i = 0

    def peek(self):
        return self.t[self.i] if self.i < len(self.t) else (None, None)

    def next(self):
        tk = self.peek()
        self.i += 1
        return tk

    def binop(self, tk):
        """(kind, level, canonical spelling) of a binary operator token or None"""
        k, v = tk
        if k == "word":
            u = v.upper()
            if u == "OR":
                return ("or", P_OR, "OR")
            if u == "AND":
                return ("and", P_AND, "AND")
            if u in CMP_WORDS:
                return ("cmp", P_CMP, v)
            return None
        if k == "op":
            if v == "||":
                return ("or", P_OR, "OR")
            if v == "&&":
                return ("and", P_AND, "AND")
            if v in CMP_SYMBOLS:
                return ("cmp", P_CMP, v)
            if v in ARITH:
                return ("bin", ARITH[v], v)
        return None

    def expr(self, minlevel):
        left = self.prefix()
        while True:
            b = self.binop(self.peek())
            if b is None or b[1] < minlevel:
                return left
            self.next()
            right = self.expr(b[1] + 1)      # left-associative
            if b[0] in ("or", "and"):
                left = (b[0], b[2], left, right)
            elif b[0] == "cmp":
                left = ("cmp", b[2], left, right)
            else:
                left = ("bin", b[2], left, right)

    def prefix(self):
        k, v = self.next()
        if k is None:
            raise RefParseError("unexpected end")
        if (k == "word" and v.upper() == "NOT") or (k == "op" and v == "!"):
            return ("not", "NOT", self.expr(P_CMP))
        if k == "op" and v == "-":
            return ("neg", self.expr(P_NEG))
        if k == "op" and v == "+":
            return self.expr(P_NEG)
        if k == "op" and v == "(":
            e = self.expr(P_OR)
            if self.next() != ("op", ")"):
                raise RefParseError("expected )")
            return e
        if k in ("attr", "str"):
            return ("atom", v)
        if k == "num":
            return ("num", float(v))
        if k == "word":
            if self.peek() == ("op", "("):
                self.next()
                args = []
                if self.peek() != ("op", ")"):
                    args.append(self.expr(P_OR))
                    while self.peek() == ("op", ","):
                        self.next()
                        args.append(self.expr(P_OR))
                if self.next() != ("op", ")"):
                    raise RefParseError("expected ) after arguments")
                return ("call", v, tuple(args))
            return ("atom", v)
        raise RefParseError("unexpected token %r" % (v,))


def refparse(s):
    toks = tokenize(s)
    p = Parser(toks)
    e = p.expr(P_OR)
    if p.i != len(toks):
        raise RefParseError("trailing tokens %r" % (toks[p.i:],))
    return e


def normal(node):
    """canonical comparison form of an AST produced by the generator (spellings && || ! -> words, numbers by value)"""
    k = node[0]
    if k == "atom":
        t = node[1]
        if re.fullmatch(r"\d+\.?\d*", t):
            return ("num", float(t))
        if "(" in t and not t.startswith(("'", '"', "`", "/")):
            return refparse(t)
        return ("atom", t)
    if k in ("or", "and"):
        return (k, k.upper(), normal(node[2]), normal(node[3]))
    if k == "not":
        return ("not", "NOT", normal(node[2]))
    if k == "cmp":
        return ("cmp", node[1], normal(node[2]), normal(node[3]))
    if k == "bin":
        return ("bin", node[1], normal(node[2]), normal(node[3]))
    if k == "neg":
        return ("neg", normal(node[1]))
    raise ValueError(node)


# ------------------------------------------------------------------ enumerators
def shapes(n):
    """all tree shapes with exactly n operator nodes; leaves are None.  node: ('b', l, r) or ('u', x)"""
    if n == 0:
        yield None
        return
    for x in shapes(n - 1):
        yield ("u", x)
    for i in range(n):
        for l in shapes(i):
            for r in shapes(n - 1 - i):
                yield ("b", l, r)


CURRENT_OPERANDS = [OPERANDS]


def fill(shape, binops, unops, counter):
    """all ASTs of a shape with operators from the given alphabets; operands assigned by position"""
    if shape is None:
        i = counter[0]
        counter[0] += 1
        o = CURRENT_OPERANDS[0][i % len(CURRENT_OPERANDS[0])]
        yield o if isinstance(o, tuple) else ("atom", o)
        return
    if shape[0] == "u":
        start = counter[0]
        for u in unops:
            counter[0] = start
            for x in fill(shape[1], binops, unops, counter):
                yield mk_un(u, x)
        return
    start = counter[0]
    for b in binops:
        counter[0] = start
        lefts = list(fill(shape[1], binops, unops, counter))
        mid = counter[0]
        for l in lefts:
            counter[0] = mid
            for r in fill(shape[2], binops, unops, counter):
                yield mk_bin(b, l, r)


def mk_bin(b, l, r):
    if b in OR_SPELL:
        return ("or", b, l, r)
    if b in AND_SPELL:
        return ("and", b, l, r)
    if b in ARITH:
        return ("bin", b, l, r)
    return ("cmp", b, l, r)


def mk_un(u, x):
    if u == "-":
        return ("neg", x)
    return ("not", u, x)


FULL_BIN = ALL_CMP + OR_SPELL + AND_SPELL + list(ARITH)
FULL_UN = NOT_SPELL + ["-"]
CLASS_BIN = ["OR", "AND", "=", "+", "*", "%"]
CLASS_UN = ["NOT", "-"]


def asts(n, binops, unops, operands=None):
    CURRENT_OPERANDS[0] = operands or OPERANDS
    try:
        for sh in shapes(n):
            yield from fill(sh, binops, unops, [0])
    finally:
        CURRENT_OPERANDS[0] = OPERANDS


def well_formed(node):
    """exclude trees the surface syntax cannot express in the intended way: a unary minus directly applied to a
    numeric literal is lexed as a signed number by every Mapfile reader (not an operator node)"""
    k = node[0]
    if k == "neg":
        x = node[1]
        if x[0] == "atom" and re.fullmatch(r"\d+\.?\d*", x[1]):
            return False
        if x[0] == "neg":
            return False           # "--x" is not Mapfile syntax
        return well_formed(x)
    if k == "atom":
        return True
    return all(well_formed(c) for c in node[1:] if isinstance(c, tuple))


# comparisons whose right operand is a regular expression holding brackets, quotes and operators (structure only for a naive scanner)
REGEX_LEAVES = [
    ("cmp", "~", ("atom", "[a]"), ("atom", "/a)b/")),
    ("cmp", "~*", ("atom", "[b]"), ("atom", "/(x/")),
    ("cmp", "~", ("atom", "[c]"), ("atom", "/^(p|q)$/i")),
    ("atom", "[d]"),
    ("cmp", "~", ("atom", '"[e]"'), ("atom", "/\\)+ AND (/")),
    ("cmp", "~*", ("atom", "[f]"), ("atom", "/it's \"/")),
    ("bin", "+", ("atom", "[g]"), ("atom", "1")),
    ("cmp", "~", ("atom", "[h]"), ("atom", "/[)(]/")),
]

# leaves that are themselves small expressions: trees over these reach 7-9 operators with 3 skeleton operators
SUBTREE_LEAVES = [
    ("cmp", "=", ("atom", "[a]"), ("atom", "1")),
    ("bin", "%", ("atom", "[b]"), ("atom", "2")),
    ("cmp", ">", ("atom", "[c]"), ("atom", "2.5")),
    ("bin", "+", ("atom", "[d]"), ("atom", "1")),
    ("cmp", "=", ("atom", "'s'"), ("atom", "[e]")),
    ("bin", "%", ("atom", "[f]"), ("atom", "3")),
    ("atom", "[g]"),
    ("bin", "*", ("atom", "2"), ("atom", "[h]")),
]
