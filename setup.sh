#!/bin/sh
# Nothing to build: the framework is pure Python run by /venv/bin/python against /repo's working tree.
cd "$(dirname "$0")" || exit 1
mkdir -p evidence replays
/venv/bin/python -c "import lark, jsonschema, mappyfile, sys; print('mcf setup ok: mappyfile from', mappyfile.__file__)"
